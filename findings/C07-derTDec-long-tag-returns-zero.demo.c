#include <stdio.h>
#include <string.h>
#include "bee2/core/der.h"
int main(){
  octet a[1]={0x5F}; u32 tag=0xEEEEEEEE; size_t len=(size_t)-3;
  size_t r=derTLDec(&tag,&len,a,1);
  printf("derTLDec({5F},1) = %zu tag=%08X len=%zd\n", r, tag, (ssize_t)len);
  octet b[100]; memset(b,0x11,100); b[0]=0x5F; b[1]=0x00;
  tag=0xEEEEEEEE; len=(size_t)-3;
  r=derTLDec(&tag,&len,b,100);
  printf("derTLDec({5F 00 ...},100) = %zu tag=%08X len=%zd\n", r, tag, (ssize_t)len);
  memset(b,0x11,100); b[0]=0x5F; b[1]=0x80; b[2]=0x29; 
  tag=0xEEEEEEEE; len=(size_t)-3;
  r=derTLDec(&tag,&len,b,100);
  printf("derTLDec({5F 80 29 ...},100) = %zu tag=%08X len=%zd valid=%d\n", r, tag, (ssize_t)len, derIsValid(b, 97));
  b[0]=0x5F; b[1]=0x00; 
  printf("derIsValid({5F 00 + 94 octets},96) = %d\n", derIsValid(b, 96));
  return 0; }
