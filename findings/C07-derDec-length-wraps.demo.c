#include <stdio.h>
#include <string.h>
#include "bee2/core/der.h"
int main(){
  octet w[12]={0x04,0x88,0xFF,0xFF,0xFF,0xFF,0xFF,0xFF,0xFF,0xFE,0x11,0x11};
  u32 tag=0; const octet* val=0; size_t len=0;
  size_t r=derDec(&tag,&val,&len,w,12);
  printf("derDec({04 88 FF FF FF FF FF FF FF FE 11 11},12) = %zu tag=%02X len=%zu val-der=%td valid=%d\n", r, tag, len, val?val-w:-1, derIsValid(w,12));
  return 0; }
