#!/bin/bash
# usage: tools/mutant.sh <patch.diff> <Cxx> [tier]  -- run a check against a scratch worktree with the patch applied
set -u
PATCH=$(realpath "$1"); PROP=$2; TIER=${3:-quick}
W=/var/tmp/mut_$$; 
git -C /repo worktree add -q --detach $W HEAD || exit 3
( cd $W && git apply "$PATCH" ) || { git -C /repo worktree remove --force $W; echo "PATCH DOES NOT APPLY"; exit 3; }
VERIF_REPO=$W VERIF_BUILD=/var/tmp/mutbuild_$$ VERIF_OUT=/var/tmp/mutout_$$ /verif/bin/simctl run $PROP --tier $TIER 2>&1 | grep -v "^\[.*leg\|done " | tail -${LINES_OUT:-12}
RC=${PIPESTATUS[0]}
if [ -n "${KEEP_REPLAY:-}" ]; then ls /var/tmp/mutout_$$/replays 2>/dev/null | head -3; cat /var/tmp/mutout_$$/replays/*.json 2>/dev/null | head -${KEEP_REPLAY}; fi
git -C /repo worktree remove --force $W; rm -rf /var/tmp/mutbuild_$$ /var/tmp/mutout_$$
echo "exit=$RC"
exit $RC
