#!/bin/bash
# Source coverage of /repo/src reached by the simulation engines (measuring aid: which library
# functions no engine ever executes).  Builds every engine in the 'cov' configuration (clang
# source-based coverage), runs a slice of every registered variant, merges the profiles and
# prints per-file line coverage plus the list of functions with zero executions.
# usage: tools/coverage.sh [runs-per-variant]   (default 3000; output under /var/tmp/bee2cov)
set -u
RUNS=${1:-3000}
OUT=/var/tmp/bee2cov; rm -rf $OUT; mkdir -p $OUT
cd /verif
python3 - <<PY
import sys; sys.path.insert(0,'/verif/sim/driver'); import driver
for e in ('pwdsim','streamsim','faultcall','mtsim','protosim'):
    print(e, driver.build_engine(e,'cov'))
PY
run() { # engine variant runs
  LLVM_PROFILE_FILE="$OUT/$1.$(echo $2 | tr -c 'a-z0-9' _).%8m.profraw" timeout 3000 build/cov/$1/sim --seed 1 --from 0 --to $3 --variant "$2" --property C00 > /dev/null 2>&1
}
run pwdsim "" $((RUNS*10)) &
run streamsim "" $((RUNS*30)) &
run faultcall base $((RUNS*6)) &
for v in alloc badarg wipe; do run faultcall $v $RUNS & done
for v in "" once exit; do run mtsim "$v" $((RUNS*3)) & done
wait
for v in bake bakealloc bakesweep bakebase bakediff bakeadv baketape sm cvc pki; do run protosim $v $((RUNS/3)) & done
wait
llvm-profdata-14 merge -sparse $OUT/*.profraw -o $OUT/all.profdata
OBJS=""; for e in pwdsim streamsim faultcall mtsim protosim; do OBJS="$OBJS -object build/cov/$e/sim"; done
llvm-cov-14 report ${OBJS# -object } -instr-profile=$OUT/all.profdata /repo/src 2>/dev/null | awk 'NR<3 || /src\// || /TOTAL/' > $OUT/report.txt
llvm-cov-14 export ${OBJS# -object } -instr-profile=$OUT/all.profdata -format=text -summary-only=false /repo/src 2>/dev/null > $OUT/export.json
python3 - <<PY
import json
d=json.load(open('$OUT/export.json'))
seen={}
for data in d['data']:
    for f in data['functions']:
        fn=f['filenames'][0]
        if '/repo/src/' not in fn: continue
        k=(fn.replace('/repo/src/',''), f['name'].split(':')[-1])
        seen[k]=max(seen.get(k,0), f['count'])
zero=sorted(k for k,v in seen.items() if v==0)
open('$OUT/zero.txt','w').write('\n'.join(f'{a}\t{b}' for a,b in zero)+'\n')
print('functions:',len(seen),'never executed:',len(zero))
PY
tail -1 $OUT/report.txt
