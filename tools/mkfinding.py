#!/usr/bin/env python3
"""Record the replay file of a genuine defect before it is repaired.

usage: mkfinding.py <Cxx> <engine> <config> <variant> <runs> <out.json> [seed]
Builds the engine from /repo's current tree (VERIF_REPO honoured), runs a batch of
<runs> simulated runs of the variant, takes the first violation or crash, replays it
in a fresh process (must reproduce) and writes a replay file in the format of
out/replays/*.json.  Used for /verif/findings/*.json."""
import sys, os, re, json, subprocess, struct
sys.path.insert(0, os.path.join(os.path.dirname(os.path.abspath(__file__)), '..', 'sim', 'driver'))
import driver


def main():
    prop, engine, config, variant, runs, outp = sys.argv[1:7]
    seed = int(sys.argv[7]) if len(sys.argv) > 7 else 1
    runs = int(runs)
    binp = driver.build_engine(engine, config)
    cur = 0
    st = f'/var/tmp/mkfinding.{os.getpid()}.status'
    while cur < runs:
        r = subprocess.run([binp, '--seed', str(seed), '--from', str(cur), '--to', str(runs), '--variant', variant,
                            '--property', prop, '--tier', 'quick', '--status', st],
                           stdout=subprocess.PIPE, stderr=subprocess.PIPE, text=True, errors='replace')
        hit = None
        for line in r.stdout.splitlines():
            if line.startswith('V '):
                f = line.split(' ', 4)
                hit = (int(f[1]), int(f[2]), f[3])
                break
        if hit is None and r.returncode not in (0, 1, 2):
            raw = open(st, 'rb').read()
            idx, rs = struct.unpack('<QQ', raw[:16])
            hit = (idx, rs, driver.classify_crash(r.returncode, r.stderr))
        if hit is None:
            print('no violation in', runs, 'runs')
            sys.exit(1)
        idx, rs, cls = hit
        res = driver.run_one(binp, rs, 'quick', variant, prop, keep=None, text=True)
        if res['cls'] is None:
            print('did not reproduce in a fresh process: idx', idx, cls)
            cur = idx + 1
            continue
        doc = {'property': prop, 'engine': engine, 'config': config, 'variant': variant, 'tier': 'quick',
               'verif_seed': seed, 'run_index': idx, 'run_seed': rs, 'keep': [], 'class': res['cls'],
               'detail': res['detail'], 'plan': res['text'],
               'replay_cmd': f'bin/simctl replay {os.path.relpath(outp, driver.VERIF)}'}
        json.dump(doc, open(outp, 'w'), indent=1)
        print('written', outp, res['cls'])
        os.unlink(st)
        return
    sys.exit(1)


main()
