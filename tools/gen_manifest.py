#!/usr/bin/env python3
"""Regenerate MANIFEST.json from sim/driver/checks.py (single source of truth)."""
import json, os, sys, subprocess
V = os.path.abspath(os.path.join(os.path.dirname(__file__), '..'))
sys.path.insert(0, os.path.join(V, 'sim', 'driver'))
from checks import CHECKS, ENGINES, NOT_APPLICABLE, MANIFEST_TEXT
hooks = subprocess.run(['git', '-C', '/repo', 'log', '--format=%H %s', '--grep=^verif hook'], capture_output=True, text=True).stdout.strip().splitlines()
m = {
 'version': 1,
 'setup_cmd': 'bin/simctl build',
 'hooks': {
  'guard': 'BEE2_VERIF',
  'enable': 'every check recompiles /repo/src (file list from src/CMakeLists.txt) with clang and -DBEE2_VERIF into /verif/build/<config>/lib',
  'baseline_off_cmd': 'bin/simctl baseline-off',
  'source_commits': [h.split()[0] for h in hooks],
  'add_only': True,
 },
 'engines': [{'name': n, 'path': f'sim/{n}', 'serves_properties': sorted(p for p, c in CHECKS.items() if any(l['engine'] == n for l in c['legs'])),
              'kind_free_text': e.get('kind', '')} for n, e in ENGINES.items()],
 'checks': [],
 'not_applicable': [{'property_id': p, 'reason': r} for p, r in sorted(NOT_APPLICABLE.items()) if p not in CHECKS],
 'notes': 'Technique: deterministic simulation with fault injection. Exit 0 held / 1 VIOLATION / 2 harness fault (never a verdict). VERIF_SEED selects the batch (default 1).',
}
for p in sorted(CHECKS):
    t = MANIFEST_TEXT[p]
    m['checks'].append({
     'property_id': p,
     'quick_cmd': f'bin/simctl run {p} --tier quick',
     'thorough_cmd': f'bin/simctl run {p} --tier thorough',
     'evidence_file': f'evidence/{p}.json',
     'replay_cmd_template': 'bin/simctl replay {path}',
     'engine': '+'.join(sorted({l['engine'] for l in CHECKS[p]['legs']})),
     'level_claimed': {'category': CHECKS[p]['level'], 'text': t['text'], 'design_ref': t['design_ref']},
     'level_note': t['note'],
     'technique': t['technique'],
    })
json.dump(m, open(os.path.join(V, 'MANIFEST.json'), 'w'), indent=1, ensure_ascii=False)
print('MANIFEST.json written:', [c['property_id'] for c in m['checks']], 'N/A:', [n['property_id'] for n in m['not_applicable']])
