#!/bin/bash
# usage: tools/seeds_regress.sh [Cxx ...]  -- re-run, for every seeded change under seeded/, the checks recorded
# as catching it in its meta.json (restricted to the named properties when given); every line must say caught.
# 4 seeds at a time, each in its own scratch worktree (removed afterwards).
cd /verif
ONLY="$*"
python3 - "$ONLY" > /var/tmp/seeds_jobs.txt <<'PY'
import json, os, sys
only = sys.argv[1].split()
for d in sorted(os.listdir('seeded')):
    m = json.load(open(f'seeded/{d}/meta.json'))
    for c, r in m.get('checks', {}).items():
        if r.get('caught') and (not only or c in only):
            print(d, c)
PY
run_one() {
  id=$1; c=$2
  out=$(VERIF_WORKERS=${SEED_WORKERS:-4} tools/mutant.sh seeded/$id/patch.diff $c quick 2>&1 | tail -3)
  rc=$(echo "$out" | grep -o "exit=[0-9]*" | tail -1)
  if [ "$rc" = "exit=1" ]; then echo "$id $c caught"; else echo "$id $c MISSED ($rc)"; fi
}
export -f run_one
xargs -P ${PAR:-4} -L 1 bash -c 'run_one $0 $1' < /var/tmp/seeds_jobs.txt
