#!/usr/bin/env python3
"""Intake of a sub-agent's seeded change: confirm every claim in scratch worktrees,
run the registered check(s) against it, and file it under /verif/seeded/<id>/.

usage: seed_intake.py <delivered dir (contains patch.diff, demo/, NOTES.md)> <seed id> <property> [more checks...]
Nothing is ever committed to /repo; scratch worktrees live under /var/tmp and are removed."""
import sys, os, subprocess, json, shutil, time, re

def sh(cmd, **kw):
    return subprocess.run(cmd, shell=True, stdout=subprocess.PIPE, stderr=subprocess.STDOUT, text=True, errors='replace', **kw)

def main():
    src, sid, prop = sys.argv[1], sys.argv[2], sys.argv[3]
    checks = [prop] + sys.argv[4:]
    dst = f'/verif/seeded/{sid}'
    os.makedirs(dst, exist_ok=True)
    shutil.copy(os.path.join(src, 'patch.diff'), os.path.join(dst, 'patch.diff'))
    if os.path.isdir(os.path.join(dst, 'demo')):
        shutil.rmtree(os.path.join(dst, 'demo'))
    shutil.copytree(os.path.join(src, 'demo'), os.path.join(dst, 'demo'))
    if os.path.exists(os.path.join(src, 'NOTES.md')):
        shutil.copy(os.path.join(src, 'NOTES.md'), os.path.join(dst, 'NOTES.md'))
    patch = os.path.join(dst, 'patch.diff')
    meta = {'seed_id': sid, 'property': prop, 'ran': [], 'confirmed': {}}
    wo, wc = f'/var/tmp/seedo_{os.getpid()}', f'/var/tmp/seedc_{os.getpid()}'
    for w in (wo, wc):
        sh(f'git -C /repo worktree add -q --detach {w} HEAD')
    r = sh(f'git -C {wc} apply {patch}')
    meta['confirmed']['patch_applies_to_repo_head'] = r.returncode == 0
    if r.returncode != 0:
        print('PATCH DOES NOT APPLY', r.stdout)
    else:
        for w, tag in ((wo, 'original'), (wc, 'changed')):
            r = sh(f'cd {w} && cmake -G Ninja -B _b -DCMAKE_BUILD_TYPE=Release >/dev/null 2>&1 && cmake --build _b 2>&1 | tail -3')
            meta['ran'].append(f'cmake -G Ninja -B _b -DCMAKE_BUILD_TYPE=Release && cmake --build _b   [{tag}]')
            meta['confirmed'][f'builds_{tag}'] = os.path.exists(f'{w}/_b/src/libbee2_static.a')
        r = sh(f'ctest --test-dir {wc}/_b --timeout 900 2>&1 | tail -4')
        meta['ran'].append('ctest --test-dir _b --timeout 900   [changed]')
        meta['confirmed']['stock_suite_passes_with_change'] = '100% tests passed' in r.stdout
        for w, tag in ((wo, 'original'), (wc, 'changed')):
            r = sh(f'cd {dst}/demo && bash run.sh {w}/_b {w}/include', timeout=900)
            meta['ran'].append(f'demo/run.sh <build> <include>   [{tag}] -> exit {r.returncode}')
            last = r.stdout.strip().splitlines()[-3:] if r.stdout.strip() else []
            meta['confirmed'][f'demo_{tag}'] = {'exit': r.returncode, 'tail': last}
        # remove demo build products
        sh(f'cd {dst}/demo && rm -f demo *.o a.out demo_bin *.so 2>/dev/null; find . -type f -perm -u+x ! -name "*.sh" -size +20k -delete')
        # our checks
        meta['checks'] = {}
        for c in checks:
            t0 = time.time()
            r = sh(f'LINES_OUT=40 /verif/tools/mutant.sh {patch} {c} quick', timeout=3600)
            classes = sorted(set(re.findall(r'class=(\S+)', r.stdout)))
            m = re.search(r'exit=(\d+)', r.stdout)
            rc = int(m.group(1)) if m else -1
            meta['checks'][c] = {'exit': rc, 'caught': rc == 1, 'classes': classes, 'wall_s': round(time.time() - t0, 1)}
            meta['ran'].append(f'tools/mutant.sh seeded/{sid}/patch.diff {c} quick -> exit {rc}')
            print(c, 'exit', rc, classes[:6])
    for w in (wo, wc):
        sh(f'git -C /repo worktree remove --force {w}')
        shutil.rmtree(w, ignore_errors=True)
    notes = open(os.path.join(dst, 'NOTES.md')).read() if os.path.exists(os.path.join(dst, 'NOTES.md')) else ''
    meta['needs_to_manifest'] = ''
    meta['summary_from_author'] = notes[:1500]
    json.dump(meta, open(os.path.join(dst, 'meta.json'), 'w'), indent=1)
    print(json.dumps(meta['confirmed'], indent=1))

main()
