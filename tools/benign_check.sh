#!/bin/bash
# usage: tools/benign_check.sh <patch.diff> [tier]
# Runs every registered check against a scratch worktree of /repo with a behaviour-preserving
# patch applied.  Every check must exit 0: an alarm here is a false alarm of the machinery.
set -u
PATCH=$(realpath "$1"); TIER=${2:-quick}
rc_all=0
for c in C04 C07 C09 C10 C15 C17 C18 C20; do
  out=$(LINES_OUT=6 /verif/tools/mutant.sh "$PATCH" $c $TIER 2>&1)
  rc=$(echo "$out" | grep -o "exit=[0-9]*" | tail -1 | cut -d= -f2)
  echo "$c exit=${rc:-?}"
  if [ "${rc:-1}" != "0" ]; then rc_all=1; echo "$out" | grep "VIOLATION\|class=" | head -6; fi
done
exit $rc_all
