#include "b2util.h"
#include <string.h>
#include "bee2/crypto/bign96.h"
#include "bee2/core/err.h"

err_t b2_params(bign_params* p, size_t privlen)
{
	switch (privlen)
	{
	case 24: return bign96ParamsStd(p, "1.2.112.0.2.0.34.101.45.3.0");
	case 32: return bignParamsStd(p, "1.2.112.0.2.0.34.101.45.3.1");
	case 48: return bignParamsStd(p, "1.2.112.0.2.0.34.101.45.3.2");
	case 64: return bignParamsStd(p, "1.2.112.0.2.0.34.101.45.3.3");
	}
	return ERR_BAD_INPUT;
}

err_t b2_keypair(octet* priv, octet* pub, size_t privlen, gen_i rng, void* st)
{
	bign_params p[1];
	err_t c = b2_params(p, privlen);
	if (c != ERR_OK)
		return c;
	return privlen == 24 ? bign96KeypairGen(priv, pub, p, rng, st) : bignKeypairGen(priv, pub, p, rng, st);
}

err_t b2_pubkey(octet* pub, const octet* priv, size_t privlen)
{
	bign_params p[1];
	err_t c = b2_params(p, privlen);
	if (c != ERR_OK)
		return c;
	return privlen == 24 ? bign96PubkeyCalc(pub, p, priv) : bignPubkeyCalc(pub, p, priv);
}

void b2_date(octet d[6], unsigned day)
{
	static const unsigned ml[12] = { 31, 28, 31, 30, 31, 30, 31, 31, 30, 31, 30, 31 };
	unsigned y = 0, m = 0;
	for (;;)
	{
		unsigned yl = (y % 4 == 0) ? 366 : 365; /* 2000..2099: every 4th year is leap */
		if (day < yl)
			break;
		day -= yl, ++y;
	}
	for (;;)
	{
		unsigned l = ml[m] + ((m == 1 && y % 4 == 0) ? 1 : 0);
		if (day < l)
			break;
		day -= l, ++m;
	}
	++m, ++day;
	d[0] = (octet)(y / 10 % 10), d[1] = (octet)(y % 10);
	d[2] = (octet)(m / 10), d[3] = (octet)(m % 10);
	d[4] = (octet)(day / 10), d[5] = (octet)(day % 10);
}

int b2_date_cmp(const octet a[6], const octet b[6]) { return memcmp(a, b, 6); }
