/* Small helpers over the bee2 API shared by engines (harness side). */
#ifndef B2UTIL_H
#define B2UTIL_H
#include "bee2/defs.h"
#include "bee2/crypto/bign.h"
#include "bee2/crypto/btok.h"

/* standard parameters for a private key of 24 (bign96), 32, 48, 64 octets */
err_t b2_params(bign_params* p, size_t privlen);
err_t b2_keypair(octet* priv, octet* pub, size_t privlen, gen_i rng, void* st);
err_t b2_pubkey(octet* pub, const octet* priv, size_t privlen);
/* simulated calendar: day 0 = 2000-01-01; valid for 2000..2099 */
void b2_date(octet d[6], unsigned day);
int b2_date_cmp(const octet a[6], const octet b[6]);
#define B2_DAYS_MAX 36524u
#endif
