/* C10: incremental APIs under fragmentation, probes (get-then-continue) and
   state migration; oracle = the library's own one-shot function (DESIGN.md C10).
   The simulator plays the data source: it decides how the stream is cut, when
   the consumer is asked for an intermediate value and when its context is
   checkpointed to another address (old block scribbled and released). */
#include "simk.h"
#include <string.h>
#include <stdio.h>
#include "bee2/core/mem.h"
#include "bee2/core/tm.h"
#include "bee2/crypto/belt.h"
#include "bee2/crypto/bash.h"
#include "bee2/crypto/brng.h"
#include "bee2/crypto/botp.h"

#define MAXL 320
enum { E_CUT, E_PROBE, E_MIGRATE };
enum { A_END, A_DELIVER, A_PROBE, A_MIGRATE };
static const char* EN[] = { "cut", "probe", "migrate" };

typedef struct { unsigned pos; unsigned char kind; unsigned char sub; unsigned idx; } elem_t;
typedef struct { unsigned L, n; elem_t el[24]; } plan_t;
typedef struct { unsigned i, cur; int pending; int tail_done; } iter_t;
typedef struct { int kind; unsigned off, len, sub; } action_t;

static sk_rng R;
static sk_result* OUT;
static const sk_mask* MASK;
static unsigned NEXT_IDX;
static sk_dg SHAPE;

/* -------------------------------------------------------------- planning */
static unsigned pick_len(unsigned block, unsigned minl, unsigned maxblocks)
{
	unsigned k = sk_below(&R, maxblocks + 1), d, L;
	switch (sk_below(&R, 6))
	{
	case 0: d = 0; break;
	case 1: d = 1; break;
	case 2: d = block - 1; break;
	default: d = sk_below(&R, block); break;
	}
	L = k * block + d;
	if (L < minl)
		L = minl + sk_below(&R, block);
	if (L > MAXL)
		L = MAXL;
	return L;
}

static unsigned pick_pos(unsigned L, unsigned block)
{
	unsigned nb = L / block + 1, k = sk_below(&R, nb + 1), p;
	switch (sk_below(&R, 8))
	{
	case 0: p = 0; break;
	case 1: p = L; break;
	case 2: p = k * block + 1; break;
	case 3: p = k * block ? k * block - 1 : 0; break;
	case 4: case 5: p = k * block; break;
	default: p = sk_below(&R, L + 1); break;
	}
	return p > L ? L : p;
}

/* align>1: positions are multiples of align in [align, L-min_tail] and
   distinct (no empty fragments) */
static void gen_plan(plan_t* p, unsigned L, unsigned block, unsigned align,
	unsigned min_tail, int probes, int migrates)
{
	unsigned want = sk_below(&R, 7), i, j;
	p->L = L, p->n = 0;
	for (i = 0; i < want && p->n < 24; ++i)
	{
		elem_t e;
		unsigned r = sk_below(&R, 10);
		e.kind = r < 5 ? E_CUT : r < 8 ? (probes ? E_PROBE : E_CUT) :
			(migrates ? E_MIGRATE : E_CUT);
		e.sub = (unsigned char)sk_below(&R, 256);
		if (align > 1)
		{
			unsigned slots;
			if (L < align + min_tail)
				break;
			slots = (L - min_tail) / align;
			if (slots == 0)
				break;
			e.pos = align * (1 + sk_below(&R, slots));
			if (e.kind == E_CUT)
			{
				int dup = 0;
				for (j = 0; j < p->n; ++j)
					if (p->el[j].pos == e.pos && p->el[j].kind == E_CUT)
						dup = 1;
				if (dup)
					continue;
			}
		}
		else
			e.pos = pick_pos(L, block);
		p->el[p->n++] = e;
	}
	/* a migration before anything was delivered is interesting too */
	if (migrates && sk_chance(&R, 1, 6) && p->n < 24)
	{
		elem_t e = { 0, E_MIGRATE, 0, 0 };
		if (align > 1 && L >= align + min_tail)
			e.pos = align;
		else if (align > 1)
			goto sort;
		p->el[p->n++] = e;
	}
sort:
	/* stable insertion sort by position */
	for (i = 1; i < p->n; ++i)
	{
		elem_t e = p->el[i];
		for (j = i; j > 0 && p->el[j - 1].pos > e.pos; --j)
			p->el[j] = p->el[j - 1];
		p->el[j] = e;
	}
	for (i = 0; i < p->n; ++i)
		p->el[i].idx = NEXT_IDX++;
}

static void text_plan(const char* name, const plan_t* p)
{
	unsigned i;
	char line[600];
	int n = snprintf(line, sizeof(line), "  stream %s len=%u:", name, p->L);
	for (i = 0; i < p->n; ++i)
		if (sk_keep(MASK, p->el[i].idx) && n < 560)
			n += snprintf(line + n, sizeof(line) - (size_t)n, " %s@%u",
				EN[p->el[i].kind], p->el[i].pos);
	sk_text(OUT, "%s", line);
}

static void iter_init(iter_t* it) { it->i = 0, it->cur = 0, it->pending = -1, it->tail_done = 0; }

/* noempty: never emit a zero-length delivery (bundles with a minimum count) */
static int plan_next(const plan_t* p, iter_t* it, action_t* a, int noempty)
{
	for (;;)
	{
		const elem_t* e;
		if (it->pending >= 0)
		{
			e = &p->el[it->pending];
			it->pending = -1;
			if (e->kind == E_PROBE)
			{
				a->kind = A_PROBE, a->off = 0, a->len = it->cur, a->sub = e->sub;
				sk_dg_u64(&SHAPE, 2 | (uint64_t)(e->sub & 7) << 8);
				sk_count("fault.probe_midstream", 1);
				return 1;
			}
			if (e->kind == E_MIGRATE)
			{
				a->kind = A_MIGRATE, a->sub = e->sub;
				sk_dg_u64(&SHAPE, 3);
				sk_count("fault.state_migrated", 1);
				return 1;
			}
			continue;
		}
		if (it->i >= p->n)
		{
			if (it->tail_done)
			{
				a->kind = A_END;
				return 0;
			}
			it->tail_done = 1;
			if (it->cur < p->L || (!noempty && it->cur == 0))
			{
				a->kind = A_DELIVER, a->off = it->cur, a->len = p->L - it->cur;
				it->cur = p->L;
				return 1;
			}
			continue;
		}
		e = &p->el[it->i++];
		if (!sk_keep(MASK, e->idx))
			continue;
		it->pending = (int)(e - p->el);
		if (e->pos > it->cur || (e->kind == E_CUT && !noempty))
		{
			a->kind = A_DELIVER, a->off = it->cur, a->len = e->pos - it->cur;
			if (a->len == 0)
				sk_count("fault.empty_fragment", 1);
			else
				sk_count("fault.fragment", 1);
			it->cur = e->pos;
			return 1;
		}
	}
}

static void frag_probe_stats(unsigned off, unsigned len, unsigned block)
{
	unsigned end = off + len;
	sk_dg_u64(&SHAPE, 1 | (uint64_t)(off % block) << 8 | (uint64_t)(len % block) << 24 |
		(uint64_t)(len / block > 3 ? 3 : len / block) << 40);
	if (len && end % block == 0)
		sk_count("probe.exact_fill", 1);
	if (end % block == block - 1)
		sk_count("probe.one_short", 1);
	if (end % block == 1 && end > 1)
		sk_count("probe.one_over", 1);
}

static void* migrate(void* st, size_t keep)
{
	void* n = sk_alloc(keep);
	sk_dg_u64(&SHAPE, 0x33);
	memcpy(n, st, keep);
	sk_bytes(&R, st, keep); /* the old context is scribbled ... */
	sk_free(st);            /* ... and released (poisoned under ASan) */
	return n;
}

static void cmp_out(const char* bundle, const char* what, const void* got,
	const void* want, size_t n, unsigned at)
{
	size_t i;
	const unsigned char* g = (const unsigned char*)got;
	const unsigned char* w = (const unsigned char*)want;
	sk_dg_add(&OUT->digest, got, n);
	sk_dg_u64(&SHAPE, 0x44 | (uint64_t)n << 8 | (uint64_t)(unsigned char)what[0] << 32);
	if (memcmp(got, want, n) == 0)
		return;
	for (i = 0; i < n && g[i] == w[i]; ++i)
		;
	{
		char cls[96];
		snprintf(cls, sizeof(cls), "mismatch:%s:%s", bundle, what);
		sk_violate(OUT, cls, "%s %s differs from the one-shot result at octet %u of %u (prefix/len %u): got %02x want %02x",
			bundle, what, (unsigned)i, (unsigned)n, at, g[i], w[i]);
	}
}

static void expect_bool(const char* bundle, const char* what, int got, int want, unsigned at)
{
	sk_dg_u64(&OUT->digest, (uint64_t)got);
	sk_dg_u64(&SHAPE, 0x55 | (uint64_t)want << 8 | (uint64_t)(unsigned char)what[6] << 16);
	if (!got != !want)
	{
		char cls[96];
		snprintf(cls, sizeof(cls), "verify:%s:%s", bundle, what);
		sk_violate(OUT, cls, "%s %s returned %d, expected %d (prefix %u)", bundle, what, got, want, at);
	}
}

static void ref_fail(const char* bundle, err_t code)
{
	sk_fault(OUT, "%s: one-shot reference failed with code %u", bundle, (unsigned)code);
}

/* ------------------------------------------------- common run parameters */
static octet key[64], iv[32], msg[MAXL + 64], buf[MAXL + 64], ref[MAXL + 64], aad[MAXL + 64], scratch[MAXL + 64];
static size_t klen;

static void common(unsigned block, unsigned minl, unsigned maxblocks, unsigned* L)
{
	static const size_t kl[3] = { 16, 24, 32 };
	klen = kl[sk_below(&R, 3)];
	sk_bytes(&R, key, sizeof(key));
	sk_bytes(&R, iv, sizeof(iv));
	*L = pick_len(block, minl, maxblocks);
	sk_bytes(&R, msg, sizeof(msg));
	memcpy(buf, msg, sizeof(buf));
}

/* ------------------------------------------------------------ belt ciphers */
enum { C_ECB, C_CBC, C_CFB, C_CTR, C_BDE };
static const char* CN[] = { "beltECB", "beltCBC", "beltCFB", "beltCTR", "beltBDE" };

static void run_cipher(int which)
{
	unsigned L, dec = sk_below(&R, 2);
	plan_t p;
	iter_t it;
	action_t a;
	void* st;
	size_t keep;
	err_t code = ERR_OK;
	int noempty = which == C_ECB || which == C_CBC;
	common(16, (which == C_ECB || which == C_CBC || which == C_BDE) ? 16 : 0, 4, &L);
	if (which == C_BDE)
		L = (L / 16) * 16, L = L ? L : 16;
	if (which == C_ECB || which == C_CBC)
		gen_plan(&p, L, 16, 16, 16, 0, 1);
	else if (which == C_BDE)
		gen_plan(&p, L, 16, 16, 0, 0, 1);
	else
		gen_plan(&p, L, 16, 1, 0, 0, 1);
	sk_text(OUT, "bundle %s%s key=%u", CN[which], dec ? "/decrypt" : "/encrypt", (unsigned)klen);
	text_plan("data", &p);
	switch (which)
	{
	case C_ECB: keep = beltECB_keep(); break;
	case C_CBC: keep = beltCBC_keep(); break;
	case C_CFB: keep = beltCFB_keep(); break;
	case C_CTR: keep = beltCTR_keep(); break;
	default: keep = beltBDE_keep(); break;
	}
	st = sk_alloc(keep);
	switch (which)
	{
	case C_ECB: beltECBStart(st, key, klen); break;
	case C_CBC: beltCBCStart(st, key, klen, iv); break;
	case C_CFB: beltCFBStart(st, key, klen, iv); break;
	case C_CTR: beltCTRStart(st, key, klen, iv); break;
	default: beltBDEStart(st, key, klen, iv); break;
	}
	iter_init(&it);
	while (plan_next(&p, &it, &a, noempty || which == C_BDE))
	{
		if (a.kind == A_MIGRATE)
			st = migrate(st, keep);
		else if (a.kind == A_DELIVER)
		{
			frag_probe_stats(a.off, a.len, 16);
			switch (which)
			{
			case C_ECB: (dec ? beltECBStepD : beltECBStepE)(buf + a.off, a.len, st); break;
			case C_CBC: (dec ? beltCBCStepD : beltCBCStepE)(buf + a.off, a.len, st); break;
			case C_CFB: (dec ? beltCFBStepD : beltCFBStepE)(buf + a.off, a.len, st); break;
			case C_CTR: beltCTRStepE(buf + a.off, a.len, st); break;
			default: (dec ? beltBDEStepD : beltBDEStepE)(buf + a.off, a.len, st); break;
			}
		}
	}
	sk_free(st);
	sk_heap_arm();
	switch (which)
	{
	case C_ECB: code = (dec ? beltECBDecr : beltECBEncr)(ref, msg, L, key, klen); break;
	case C_CBC: code = (dec ? beltCBCDecr : beltCBCEncr)(ref, msg, L, key, klen, iv); break;
	case C_CFB: code = (dec ? beltCFBDecr : beltCFBEncr)(ref, msg, L, key, klen, iv); break;
	case C_CTR: code = beltCTR(ref, msg, L, key, klen, iv); break;
	default: code = (dec ? beltBDEDecr : beltBDEEncr)(ref, msg, L, key, klen, iv); break;
	}
	sk_heap_disarm();
	if (code != ERR_OK)
		ref_fail(CN[which], code);
	else
		cmp_out(CN[which], dec ? "plaintext" : "ciphertext", buf, ref, L, L);
}

/* SDE: whole sectors, each with its own iv; the "stream" is a list of sectors */
static void run_sde(void)
{
	unsigned L, nsec, i, dec = sk_below(&R, 2);
	void* st;
	size_t keep = beltSDE_keep();
	common(16, 32, 4, &L);
	nsec = 1 + sk_below(&R, 4);
	sk_text(OUT, "bundle beltSDE%s key=%u sectors=%u", dec ? "/decrypt" : "/encrypt", (unsigned)klen, nsec);
	OUT->nops = NEXT_IDX = nsec;
	st = sk_alloc(keep);
	beltSDEStart(st, key, klen);
	for (i = 0; i < nsec; ++i)
	{
		unsigned len = 32 + 16 * sk_below(&R, 5);
		octet siv[16];
		err_t code;
		int mig = sk_chance(&R, 1, 3);
		sk_bytes(&R, siv, 16);
		sk_bytes(&R, msg, len);
		if (!sk_keep(MASK, i))
			continue;
		memcpy(buf, msg, len);
		if (mig)
			st = migrate(st, keep), sk_count("fault.state_migrated", 1);
		sk_text(OUT, "  sector %u len=%u%s", i, len, mig ? " (state migrated before)" : "");
		(dec ? beltSDEStepD : beltSDEStepE)(buf, len, siv, st);
		sk_heap_arm();
		code = (dec ? beltSDEDecr : beltSDEEncr)(ref, msg, len, key, klen, siv);
		sk_heap_disarm();
		if (code != ERR_OK)
			ref_fail("beltSDE", code);
		else
			cmp_out("beltSDE", "sector", buf, ref, len, i);
	}
	sk_free(st);
}

/* ------------------------------------------------- belt MAC / Hash / HMAC */
enum { M_MAC, M_HASH, M_HMAC };
static const char* MN[] = { "beltMAC", "beltHash", "beltHMAC" };

static err_t mref(int which, octet* out, unsigned n)
{
	err_t code;
	sk_heap_arm();
	if (which == M_MAC)
		code = beltMAC(out, msg, n, key, klen);
	else if (which == M_HASH)
		code = beltHash(out, msg, n);
	else
		code = beltHMAC(out, msg, n, key, klen);
	sk_heap_disarm();
	return code;
}

static void mac_probe(int which, void* st, unsigned prefix, unsigned sub, const char* label)
{
	octet got[32], want[32];
	size_t full = which == M_MAC ? 8 : 32, n;
	err_t code = mref(which, want, prefix);
	int r;
	if (code != ERR_OK)
	{
		ref_fail(MN[which], code);
		return;
	}
	n = (sub >> 3) % (full + 1);
	switch (sub & 7)
	{
	case 0: case 1: case 5:
		memset(got, 0xEE, sizeof(got));
		if (which == M_MAC) beltMACStepG(got, st);
		else if (which == M_HASH) beltHashStepG(got, st);
		else beltHMACStepG(got, st);
		cmp_out(MN[which], label, got, want, full, prefix);
		break;
	case 2:
		memset(got, 0xEE, sizeof(got));
		if (which == M_MAC) beltMACStepG2(got, n, st);
		else if (which == M_HASH) beltHashStepG2(got, n, st);
		else beltHMACStepG2(got, n, st);
		cmp_out(MN[which], label, got, want, n, prefix);
		break;
	case 3:
		if (which == M_MAC) r = beltMACStepV(want, st);
		else if (which == M_HASH) r = beltHashStepV(want, st);
		else r = beltHMACStepV(want, st);
		expect_bool(MN[which], "StepV(correct)", r, 1, prefix);
		break;
	case 4:
		if (n == 0)
			n = 1;
		if (which == M_MAC) r = beltMACStepV2(want, n, st);
		else if (which == M_HASH) r = beltHashStepV2(want, n, st);
		else r = beltHMACStepV2(want, n, st);
		expect_bool(MN[which], "StepV2(correct)", r, 1, prefix);
		break;
	default:
		want[(sub >> 3) % full] ^= (octet)(1u << (sub % 7));
		if (which == M_MAC) r = beltMACStepV(want, st);
		else if (which == M_HASH) r = beltHashStepV(want, st);
		else r = beltHMACStepV(want, st);
		expect_bool(MN[which], "StepV(altered)", r, 0, prefix);
		break;
	}
}

static void run_mac(int which)
{
	unsigned L, block = which == M_MAC ? 16 : 32;
	plan_t p;
	iter_t it;
	action_t a;
	void* st;
	size_t keep = which == M_MAC ? beltMAC_keep() : which == M_HASH ? beltHash_keep() : beltHMAC_keep();
	common(block, 0, 4, &L);
	if (which == M_HMAC)
	{
		/* HMAC takes a key of any length: straddle the 32-octet block */
		static const size_t hk[] = { 0, 1, 16, 31, 32, 33, 47, 64 };
		klen = hk[sk_below(&R, 8)];
	}
	gen_plan(&p, L, block, 1, 0, 1, 1);
	sk_text(OUT, "bundle %s key=%u", MN[which], (unsigned)klen);
	text_plan("data", &p);
	st = sk_alloc(keep);
	if (which == M_MAC) beltMACStart(st, key, klen);
	else if (which == M_HASH) beltHashStart(st);
	else beltHMACStart(st, key, klen);
	iter_init(&it);
	while (plan_next(&p, &it, &a, 0))
	{
		if (a.kind == A_MIGRATE)
			st = migrate(st, keep);
		else if (a.kind == A_DELIVER)
		{
			frag_probe_stats(a.off, a.len, block);
			if (which == M_MAC) beltMACStepA(msg + a.off, a.len, st);
			else if (which == M_HASH) beltHashStepH(msg + a.off, a.len, st);
			else beltHMACStepA(msg + a.off, a.len, st);
		}
		else if (a.kind == A_PROBE)
		{
			if (a.len % block)
				sk_count("probe.get_on_partial_block", 1);
			mac_probe(which, st, a.len, a.sub, "probe");
		}
		if (OUT->violated)
			break;
	}
	if (!OUT->violated)
		mac_probe(which, st, L, 0, "final");
	sk_free(st);
}

/* --------------------------------------------------------- belt DWP / CHE */
static void run_aead(int che)
{
	const char* name = che ? "beltCHE" : "beltDWP";
	unsigned L1, L2, unwrap = sk_below(&R, 2), interleave = sk_below(&R, 2);
	plan_t pi, pc;
	iter_t it;
	action_t a;
	void* st;
	octet mac[8], rmac[8], got[8];
	size_t keep = che ? beltCHE_keep() : beltDWP_keep();
	err_t code;
	common(16, 0, 4, &L1);
	L2 = pick_len(16, 0, 3);
	sk_bytes(&R, aad, sizeof(aad));
	gen_plan(&pi, L2, 16, 1, 0, 1, 1);
	gen_plan(&pc, L1, 16, 1, 0, 1, 1);
	sk_text(OUT, "bundle %s/%s%s key=%u", name, unwrap ? "unwrap" : "wrap",
		interleave ? " (E/A per fragment)" : " (all E, then A)", (unsigned)klen);
	text_plan("public", &pi);
	text_plan("critical", &pc);
	/* reference */
	sk_heap_arm();
	code = (che ? beltCHEWrap : beltDWPWrap)(ref, rmac, msg, L1, aad, L2, key, klen, iv);
	sk_heap_disarm();
	if (code != ERR_OK)
	{
		ref_fail(name, code);
		return;
	}
	st = sk_alloc(keep);
	(che ? beltCHEStart : beltDWPStart)(st, key, klen, iv);
	/* public data */
	iter_init(&it);
	while (plan_next(&pi, &it, &a, 0) && !OUT->violated)
	{
		if (a.kind == A_MIGRATE)
			st = migrate(st, keep);
		else if (a.kind == A_DELIVER)
		{
			frag_probe_stats(a.off, a.len, 16);
			(che ? beltCHEStepI : beltDWPStepI)(aad + a.off, a.len, st);
		}
		else if (a.kind == A_PROBE)
		{
			/* mac of (no critical data, public prefix) */
			octet pr[8];
			sk_heap_arm();
			code = (che ? beltCHEWrap : beltDWPWrap)(scratch, pr, msg, 0, aad, a.len, key, klen, iv);
			sk_heap_disarm();
			if (code != ERR_OK) { ref_fail(name, code); break; }
			if (a.len % 16)
				sk_count("probe.get_on_partial_block", 1);
			if (a.sub & 1)
			{
				(che ? beltCHEStepG : beltDWPStepG)(got, st);
				cmp_out(name, "probe-public", got, pr, 8, a.len);
			}
			else
				expect_bool(name, "StepV(public prefix)", (che ? beltCHEStepV : beltDWPStepV)(pr, st), 1, a.len);
		}
	}
	/* critical data */
	if (unwrap)
		memcpy(buf, ref, L1);
	else
		memcpy(buf, msg, L1);
	if (!interleave && !unwrap)
		(che ? beltCHEStepE : beltDWPStepE)(buf, L1, st);
	iter_init(&it);
	while (plan_next(&pc, &it, &a, 0) && !OUT->violated)
	{
		if (a.kind == A_MIGRATE)
			st = migrate(st, keep);
		else if (a.kind == A_DELIVER)
		{
			frag_probe_stats(a.off, a.len, 16);
			if (unwrap)
			{
				(che ? beltCHEStepA : beltDWPStepA)(buf + a.off, a.len, st);
				if (interleave)
					(che ? beltCHEStepD : beltDWPStepD)(buf + a.off, a.len, st);
			}
			else
			{
				if (interleave)
					(che ? beltCHEStepE : beltDWPStepE)(buf + a.off, a.len, st);
				(che ? beltCHEStepA : beltDWPStepA)(buf + a.off, a.len, st);
			}
		}
		else if (a.kind == A_PROBE)
		{
			/* mac over (critical prefix, all public data): the ciphertext prefix
			   of a CTR-type cipher is the ciphertext of the prefix */
			octet pr[8];
			sk_heap_arm();
			code = (che ? beltCHEWrap : beltDWPWrap)(scratch, pr, msg, a.len, aad, L2, key, klen, iv);
			sk_heap_disarm();
			if (code != ERR_OK) { ref_fail(name, code); break; }
			if (a.len % 16)
				sk_count("probe.get_on_partial_block", 1);
			if (a.sub & 1)
			{
				(che ? beltCHEStepG : beltDWPStepG)(got, st);
				cmp_out(name, "probe-critical", got, pr, 8, a.len);
			}
			else
				expect_bool(name, "StepV(critical prefix)", (che ? beltCHEStepV : beltDWPStepV)(pr, st), 1, a.len);
		}
	}
	if (!OUT->violated)
	{
		if (unwrap)
		{
			octet bad[8];
			memcpy(bad, rmac, 8);
			bad[sk_below(&R, 8)] ^= (octet)(1u << sk_below(&R, 8));
			expect_bool(name, "StepV(altered tag)", (che ? beltCHEStepV : beltDWPStepV)(bad, st), 0, L1);
			expect_bool(name, "StepV(final)", (che ? beltCHEStepV : beltDWPStepV)(rmac, st), 1, L1);
			if (!interleave)
				(che ? beltCHEStepD : beltDWPStepD)(buf, L1, st);
			cmp_out(name, "plaintext", buf, msg, L1, L1);
		}
		else
		{
			(che ? beltCHEStepG : beltDWPStepG)(mac, st);
			cmp_out(name, "ciphertext", buf, ref, L1, L1);
			cmp_out(name, "tag", mac, rmac, 8, L1);
		}
	}
	sk_free(st);
}

/* ----------------------------------------------------------------- KRP */
static void run_krp(void)
{
	unsigned n, i;
	void* st;
	size_t keep = beltKRP_keep();
	octet level[12];
	unsigned Ld;
	common(16, 0, 1, &Ld);
	sk_bytes(&R, level, 12);
	n = 1 + sk_below(&R, 5);
	OUT->nops = NEXT_IDX = n;
	sk_text(OUT, "bundle beltKRP key=%u gets=%u", (unsigned)klen, n);
	st = sk_alloc(keep);
	beltKRPStart(st, key, klen, level);
	for (i = 0; i < n; ++i)
	{
		static const size_t kl[3] = { 16, 24, 32 };
		size_t m = kl[sk_below(&R, 3)];
		octet header[16], got[32], want[32];
		err_t code;
		int mig = sk_chance(&R, 1, 3);
		sk_bytes(&R, header, 16);
		if (m > klen)
			m = klen;
		if (!sk_keep(MASK, i))
			continue;
		if (mig)
			st = migrate(st, keep), sk_count("fault.state_migrated", 1);
		sk_text(OUT, "  StepG #%u out_len=%u%s", i, (unsigned)m, mig ? " (state migrated before)" : "");
		beltKRPStepG(got, m, header, st);
		sk_heap_arm();
		code = beltKRP(want, m, key, klen, level, header);
		sk_heap_disarm();
		if (code != ERR_OK)
			ref_fail("beltKRP", code);
		else
			cmp_out("beltKRP", "key", got, want, m, i);
	}
	sk_free(st);
}

/* ------------------------------------------------------------ bash hash */
static void run_bashhash(void)
{
	unsigned L, l = 16 * (1 + sk_below(&R, 16)), rate = 192 - l / 2;
	plan_t p;
	iter_t it;
	action_t a;
	void* st;
	size_t keep = bashHash_keep();
	octet got[64], want[64];
	err_t code;
	common(rate, 0, 2, &L);
	if (L > MAXL)
		L = MAXL;
	gen_plan(&p, L, rate, 1, 0, 1, 0);
	sk_text(OUT, "bundle bashHash l=%u (rate %u octets)", l, rate);
	text_plan("data", &p);
	st = sk_alloc(keep);
	bashHashStart(st, l);
	iter_init(&it);
	while (plan_next(&p, &it, &a, 0) && !OUT->violated)
	{
		if (a.kind == A_DELIVER)
		{
			frag_probe_stats(a.off, a.len, rate);
			bashHashStepH(msg + a.off, a.len, st);
		}
		else if (a.kind == A_PROBE)
		{
			size_t n = (a.sub >> 2) % (l / 4 + 1);
			sk_heap_arm();
			code = bashHash(want, l, msg, a.len);
			sk_heap_disarm();
			if (code != ERR_OK) { ref_fail("bashHash", code); break; }
			if (a.len % rate)
				sk_count("probe.get_on_partial_block", 1);
			if ((a.sub & 3) == 0)
			{
				bashHashStepG(got, l / 4, st);
				cmp_out("bashHash", "probe", got, want, l / 4, a.len);
			}
			else if ((a.sub & 3) == 1)
			{
				bashHashStepG(got, n, st);
				cmp_out("bashHash", "probe-truncated", got, want, n, a.len);
			}
			else if ((a.sub & 3) == 2)
				expect_bool("bashHash", "StepV(correct)", bashHashStepV(want, l / 4, st), 1, a.len);
			else
			{
				want[0] ^= 1;
				expect_bool("bashHash", "StepV(altered)", bashHashStepV(want, l / 4, st), 0, a.len);
			}
		}
	}
	if (!OUT->violated)
	{
		sk_heap_arm();
		code = bashHash(want, l, msg, L);
		sk_heap_disarm();
		if (code != ERR_OK)
			ref_fail("bashHash", code);
		else
		{
			bashHashStepG(got, l / 4, st);
			cmp_out("bashHash", "final", got, want, l / 4, L);
		}
	}
	sk_free(st);
}

/* ------------------------------------------------------------- bash prg */
/* two automata fed the same command history: one through the one-shot command
   functions, one through XStart + XStep* with the data cut by the plan */
static void run_bashprg(void)
{
	static const unsigned ls[3] = { 128, 192, 256 };
	unsigned l = ls[sk_below(&R, 3)], d = 1 + sk_below(&R, 2);
	unsigned keyed = sk_below(&R, 2), ncmd = 1 + sk_below(&R, 5), c;
	unsigned rate = keyed ? (192 - l * (2 + d) / 16) : (192 - d * l / 4);
	size_t keep = bashPrg_keep();
	void *sa, *sb;
	size_t ann_len = 4 * sk_below(&R, 16), key_len = keyed ? 4 * sk_range(&R, l / 32, 15) : 0;
	octet ann[64], pkey[64];
	sk_bytes(&R, ann, sizeof(ann));
	sk_bytes(&R, pkey, sizeof(pkey));
	sk_bytes(&R, msg, sizeof(msg));
	if (rate == 0 || rate > 192)
		rate = 32;
	sk_text(OUT, "bundle bashPrg l=%u d=%u %s ann=%u key=%u cmds=%u", l, d,
		keyed ? "keyed" : "keyless", (unsigned)ann_len, (unsigned)key_len, ncmd);
	sa = sk_alloc(keep), sb = sk_alloc(keep);
	bashPrgStart(sa, l, d, ann, ann_len, pkey, key_len);
	bashPrgStart(sb, l, d, ann, ann_len, pkey, key_len);
	for (c = 0; c < ncmd && !OUT->violated; ++c)
	{
		unsigned cmd = sk_below(&R, keyed ? 6 : 4);
		unsigned L = pick_len(rate, 0, 2);
		plan_t p;
		iter_t it;
		action_t a;
		static const char* CMD[] = { "absorb", "squeeze", "ratchet", "restart", "encrypt", "decrypt" };
		if (L > MAXL)
			L = MAXL;
		gen_plan(&p, L, rate, 1, 0, 0, 0);
		sk_text(OUT, " command %u %s", c, CMD[cmd]);
		if (cmd != 2 && cmd != 3)
			text_plan("data", &p);
		sk_dg_u64(&OUT->digest, cmd);
		iter_init(&it);
		switch (cmd)
		{
		case 0:
			bashPrgAbsorb(msg, L, sa);
			bashPrgAbsorbStart(sb);
			while (plan_next(&p, &it, &a, 0))
				if (a.kind == A_DELIVER)
					frag_probe_stats(a.off, a.len, rate), bashPrgAbsorbStep(msg + a.off, a.len, sb);
			break;
		case 1:
			memset(ref, 0x11, L), memset(buf, 0x22, L);
			bashPrgSqueeze(ref, L, sa);
			bashPrgSqueezeStart(sb);
			while (plan_next(&p, &it, &a, 0))
				if (a.kind == A_DELIVER)
					frag_probe_stats(a.off, a.len, rate), bashPrgSqueezeStep(buf + a.off, a.len, sb);
			cmp_out("bashPrg", "squeeze", buf, ref, L, c);
			break;
		case 2:
			bashPrgRatchet(sa), bashPrgRatchet(sb);
			break;
		case 3:
		{
			size_t al = 4 * sk_below(&R, 16), kl2 = sk_chance(&R, 1, 2) ? 0 : 4 * sk_range(&R, l / 32, 15);
			bashPrgRestart(ann + 1, al, pkey + 1, kl2, sa);
			bashPrgRestart(ann + 1, al, pkey + 1, kl2, sb);
			if (kl2)
				keyed = 1;
			break;
		}
		case 4:
		case 5:
			memcpy(ref, msg, L), memcpy(buf, msg, L);
			if (cmd == 4)
				bashPrgEncr(ref, L, sa), bashPrgEncrStart(sb);
			else
				bashPrgDecr(ref, L, sa), bashPrgDecrStart(sb);
			while (plan_next(&p, &it, &a, 0))
				if (a.kind == A_DELIVER)
				{
					frag_probe_stats(a.off, a.len, rate);
					(cmd == 4 ? bashPrgEncrStep : bashPrgDecrStep)(buf + a.off, a.len, sb);
				}
			cmp_out("bashPrg", cmd == 4 ? "encrypt" : "decrypt", buf, ref, L, c);
			break;
		}
	}
	if (!OUT->violated)
	{
		/* final squeeze makes any divergence of the two automata visible */
		bashPrgSqueeze(ref, 32, sa), bashPrgSqueeze(buf, 32, sb);
		cmp_out("bashPrg", "final-squeeze", buf, ref, 32, ncmd);
	}
	sk_free(sa), sk_free(sb);
}

/* ----------------------------------------------------------------- brng */
static void run_brngctr(void)
{
	unsigned L;
	plan_t p;
	iter_t it;
	action_t a;
	void* st;
	size_t keep = brngCTR_keep();
	octet riv[32], giv[32];
	err_t code;
	int noiv;
	common(32, 0, 4, &L);
	noiv = sk_chance(&R, 1, 5);
	if (sk_chance(&R, 1, 4))
	{
		/* counters about to wrap a word or all 256 bits */
		memset(iv, 0xFF, 32);
		if (sk_chance(&R, 1, 2))
			iv[sk_below(&R, 32)] = 0xFE;
	}
	gen_plan(&p, L, 32, 1, 0, 1, 1);
	sk_text(OUT, "bundle brngCTR%s", noiv ? " (null iv)" : "");
	text_plan("output", &p);
	memset(buf, 0, sizeof(buf));
	st = sk_alloc(keep);
	brngCTRStart(st, key, noiv ? 0 : iv);
	iter_init(&it);
	while (plan_next(&p, &it, &a, 0) && !OUT->violated)
	{
		if (a.kind == A_MIGRATE)
			st = migrate(st, keep);
		else if (a.kind == A_DELIVER)
		{
			frag_probe_stats(a.off, a.len, 32);
			brngCTRStepR(buf + a.off, a.len, st);
		}
		else if (a.kind == A_PROBE)
		{
			memset(ref, 0, sizeof(ref));
			if (noiv) memset(riv, 0, 32); else memcpy(riv, iv, 32);
			sk_heap_arm();
			code = brngCTRRand(ref, a.len, key, riv);
			sk_heap_disarm();
			if (code != ERR_OK) { ref_fail("brngCTR", code); break; }
			brngCTRStepG(giv, st);
			cmp_out("brngCTR", "probe-iv", giv, riv, 32, a.len);
			if (a.len % 32)
				sk_count("probe.get_on_partial_block", 1);
		}
	}
	if (!OUT->violated)
	{
		memset(ref, 0, sizeof(ref));
		if (noiv) memset(riv, 0, 32); else memcpy(riv, iv, 32);
		sk_heap_arm();
		code = brngCTRRand(ref, L, key, riv);
		sk_heap_disarm();
		if (code != ERR_OK)
			ref_fail("brngCTR", code);
		else
		{
			cmp_out("brngCTR", "output", buf, ref, L, L);
			brngCTRStepG(giv, st);
			cmp_out("brngCTR", "final-iv", giv, riv, 32, L);
		}
	}
	sk_free(st);
}

static void run_brnghmac(void)
{
	unsigned L;
	plan_t p;
	iter_t it;
	action_t a;
	void* st;
	size_t keep = brngHMAC_keep(), ivl;
	static const size_t ivls[] = { 0, 1, 31, 32, 63, 64, 65, 100 };
	static const size_t kls[] = { 0, 16, 32, 33, 64 };
	octet* liv;
	err_t code;
	common(32, 0, 4, &L);
	klen = kls[sk_below(&R, 5)];
	ivl = ivls[sk_below(&R, 8)];
	/* the header obliges the caller to keep iv valid only if iv_len > 64:
	   a short iv is released right after Start */
	liv = (octet*)sk_alloc(ivl ? ivl : 1);
	sk_bytes(&R, liv, ivl);
	memcpy(aad, liv, ivl);
	gen_plan(&p, L, 32, 1, 0, 0, 1);
	sk_text(OUT, "bundle brngHMAC key=%u iv=%u", (unsigned)klen, (unsigned)ivl);
	text_plan("output", &p);
	st = sk_alloc(keep);
	brngHMACStart(st, key, klen, liv, ivl);
	if (ivl <= 64)
	{
		sk_bytes(&R, liv, ivl);
		sk_free(liv), liv = 0;
		sk_count("probe.short_iv_released_after_start", 1);
	}
	memset(buf, 0, sizeof(buf));
	iter_init(&it);
	while (plan_next(&p, &it, &a, 0))
	{
		if (a.kind == A_MIGRATE)
			st = migrate(st, keep);
		else if (a.kind == A_DELIVER)
		{
			frag_probe_stats(a.off, a.len, 32);
			brngHMACStepR(buf + a.off, a.len, st);
		}
	}
	sk_heap_arm();
	code = brngHMACRand(ref, L, key, klen, aad, ivl);
	sk_heap_disarm();
	if (code != ERR_OK)
		ref_fail("brngHMAC", code);
	else
		cmp_out("brngHMAC", "output", buf, ref, L, L);
	sk_free(st);
	if (liv)
		sk_free(liv);
}

/* ----------------------------------------------------------------- botp */
static void run_hotp(void)
{
	unsigned n = 1 + sk_below(&R, 6), i, digit = 6 + sk_below(&R, 3);
	size_t keep = botpHOTP_keep();
	void* st;
	octet ctr[8], g[8];
	char otp[16], want[16];
	unsigned Ld;
	common(16, 0, 1, &Ld);
	klen = 1 + sk_below(&R, 64);
	sk_bytes(&R, ctr, 8);
	if (sk_chance(&R, 1, 3))
	{
		memset(ctr, 0xFF, 8);
		ctr[7] = (octet)(0xFF - sk_below(&R, 3)); /* wrap-around mod 2^64 */
	}
	OUT->nops = NEXT_IDX = n;
	sk_text(OUT, "bundle botpHOTP digit=%u key=%u steps=%u", digit, (unsigned)klen, n);
	st = sk_alloc(keep);
	botpHOTPStart(st, digit, key, klen);
	botpHOTPStepS(st, ctr);
	for (i = 0; i < n && !OUT->violated; ++i)
	{
		unsigned op = sk_below(&R, 4);
		int mig = sk_chance(&R, 1, 3);
		err_t code;
		if (!sk_keep(MASK, i))
			continue;
		if (mig)
			st = migrate(st, keep), sk_count("fault.state_migrated", 1);
		sk_heap_arm();
		code = botpHOTPRand(want, digit, key, klen, ctr);
		sk_heap_disarm();
		if (code != ERR_OK) { ref_fail("botpHOTP", code); break; }
		switch (op)
		{
		case 0:
			sk_text(OUT, "  %u StepR%s", i, mig ? " (migrated)" : "");
			memset(otp, 'x', sizeof(otp));
			botpHOTPStepR(otp, st);
			cmp_out("botpHOTP", "otp", otp, want, digit + 1, i);
			botpCtrNext(ctr);
			break;
		case 1:
			sk_text(OUT, "  %u StepV(correct)%s", i, mig ? " (migrated)" : "");
			expect_bool("botpHOTP", "StepV(correct)", botpHOTPStepV(want, st), 1, i);
			botpCtrNext(ctr);
			break;
		case 2:
			sk_text(OUT, "  %u StepV(wrong)%s", i, mig ? " (migrated)" : "");
			want[digit - 1] = (char)('0' + (want[digit - 1] - '0' + 1) % 10);
			expect_bool("botpHOTP", "StepV(wrong)", botpHOTPStepV(want, st), 0, i);
			break; /* counter must not advance */
		default:
			sk_text(OUT, "  %u StepG%s", i, mig ? " (migrated)" : "");
			botpHOTPStepG(g, st);
			cmp_out("botpHOTP", "counter", g, ctr, 8, i);
			break;
		}
	}
	if (!OUT->violated)
	{
		botpHOTPStepG(g, st);
		cmp_out("botpHOTP", "final-counter", g, ctr, 8, n);
	}
	sk_free(st);
}

static void run_totp(void)
{
	unsigned n = 1 + sk_below(&R, 5), i, digit = 6 + sk_below(&R, 3);
	size_t keep = botpTOTP_keep();
	void* st;
	char otp[16], want[16];
	unsigned Ld;
	tm_time_t t = (tm_time_t)sk_below(&R, 2000000000u);
	common(16, 0, 1, &Ld);
	klen = 1 + sk_below(&R, 64);
	OUT->nops = NEXT_IDX = n;
	sk_text(OUT, "bundle botpTOTP digit=%u key=%u steps=%u", digit, (unsigned)klen, n);
	st = sk_alloc(keep);
	botpTOTPStart(st, digit, key, klen);
	for (i = 0; i < n && !OUT->violated; ++i)
	{
		unsigned op = sk_below(&R, 3);
		int mig = sk_chance(&R, 1, 3);
		int delta = (int)sk_below(&R, 7) - 3;
		err_t code;
		t += sk_below(&R, 5); /* simulated clock advances */
		if (!sk_keep(MASK, i))
			continue;
		if (mig)
			st = migrate(st, keep), sk_count("fault.state_migrated", 1);
		if (op == 0)
		{
			sk_heap_arm();
			code = botpTOTPRand(want, digit, key, klen, t);
			sk_heap_disarm();
			if (code != ERR_OK) { ref_fail("botpTOTP", code); break; }
			sk_text(OUT, "  %u StepR t=%llu%s", i, (unsigned long long)t, mig ? " (migrated)" : "");
			memset(otp, 'x', sizeof(otp));
			botpTOTPStepR(otp, t, st);
			cmp_out("botpTOTP", "otp", otp, want, digit + 1, i);
		}
		else
		{
			/* the prover's clock is skewed by delta ticks against the verifier's */
			tm_time_t tp = (tm_time_t)(t + delta);
			char mine[16];
			if (delta < 0 && (tm_time_t)(-delta) > t)
				continue;
			sk_heap_arm();
			code = botpTOTPRand(want, digit, key, klen, tp);
			if (code == ERR_OK)
				code = botpTOTPRand(mine, digit, key, klen, t);
			sk_heap_disarm();
			if (code != ERR_OK) { ref_fail("botpTOTP", code); break; }
			sk_text(OUT, "  %u StepV t=%llu prover_skew=%d%s", i,
				(unsigned long long)t, delta, mig ? " (migrated)" : "");
			sk_count("fault.clock_skew", delta != 0);
			/* accepted iff the prover's password equals the verifier's own for
			   its tick (equal ticks, or a 10^-digit collision, which the
			   one-shot generator reveals) */
			expect_bool("botpTOTP", delta ? "StepV(skewed clock)" : "StepV(same tick)",
				botpTOTPStepV(want, t, st), strcmp(mine, want) == 0, i);
		}
	}
	sk_free(st);
}


/* OCRA: a sequence of generate/verify/get calls on one state, with relocation */
static void run_ocra(void)
{
	static const char* SUITES[] = {
		"OCRA-1:HOTP-HBELT-8:C-QN08-PHBELT-S064-T1M", "OCRA-1:HOTP-HBELT-6:QN08",
		"OCRA-1:HOTP-HBELT-7:QA10-T30S", "OCRA-1:HOTP-HBELT-9:C-QH40-PSHA1",
		"OCRA-1:HOTP-HBELT-4:C-QA64-S128" };
	static const size_t QMAX[] = { 8, 8, 10, 40, 64 };
	static const size_t DIG[] = { 8, 6, 7, 9, 4 };
	static const int HASC[] = { 1, 0, 0, 1, 1 };
	unsigned si = sk_below(&R, 5), n = 1 + sk_below(&R, 6), i;
	size_t keep = botpOCRA_keep(), sl = strlen(SUITES[si]) + 1;
	void* st;
	char* suite = (char*)sk_alloc(sl);
	octet ctr[8], p[64], sess[512], q[128], g[8];
	char otp[16], want[16];
	unsigned Ld;
	tm_time_t t = (tm_time_t)sk_below(&R, 2000000000u);
	common(16, 0, 1, &Ld);
	klen = 1 + sk_below(&R, 64);
	memcpy(suite, SUITES[si], sl);
	sk_bytes(&R, ctr, 8), sk_bytes(&R, p, 64), sk_bytes(&R, sess, 512);
	if (sk_chance(&R, 1, 3))
		memset(ctr, 0xFF, 8), ctr[7] = (octet)(0xFF - sk_below(&R, 3));
	OUT->nops = NEXT_IDX = n;
	sk_text(OUT, "bundle botpOCRA suite=%s key=%u steps=%u", SUITES[si], (unsigned)klen, n);
	st = sk_alloc(keep);
	if (!botpOCRAStart(st, suite, key, klen))
	{
		sk_violate(OUT, "mismatch:botpOCRA:start", "botpOCRAStart rejects the valid suite %s", SUITES[si]);
		return;
	}
	botpOCRAStepS(st, ctr, p, sess);
	for (i = 0; i < n && !OUT->violated; ++i)
	{
		unsigned op = sk_below(&R, 4), k;
		int mig = sk_chance(&R, 1, 3);
		size_t ql = 4 + sk_below(&R, (uint32_t)(2 * QMAX[si] - 3));
		err_t code;
		for (k = 0; k < ql; ++k)
			q[k] = (octet)('0' + sk_below(&R, 10));
		t += sk_below(&R, 3);
		if (!sk_keep(MASK, i))
			continue;
		if (mig)
			st = migrate(st, keep), sk_count("fault.state_migrated", 1);
		sk_heap_arm();
		code = botpOCRARand(want, suite, key, klen, q, ql, ctr, p, sess, t);
		sk_heap_disarm();
		if (code != ERR_OK) { ref_fail("botpOCRA", code); break; }
		switch (op)
		{
		case 0:
			sk_text(OUT, "  %u StepR q=%u%s", i, (unsigned)ql, mig ? " (migrated)" : "");
			memset(otp, 'x', sizeof(otp));
			botpOCRAStepR(otp, q, ql, t, st);
			cmp_out("botpOCRA", "otp", otp, want, DIG[si] + 1, i);
			if (HASC[si]) botpCtrNext(ctr);
			break;
		case 1:
			sk_text(OUT, "  %u StepV(correct) q=%u%s", i, (unsigned)ql, mig ? " (migrated)" : "");
			expect_bool("botpOCRA", "StepV(correct)", botpOCRAStepV(want, q, ql, t, st), 1, i);
			if (HASC[si]) botpCtrNext(ctr);
			break;
		case 2:
			sk_text(OUT, "  %u StepV(wrong)%s", i, mig ? " (migrated)" : "");
			want[DIG[si] - 1] = (char)('0' + (want[DIG[si] - 1] - '0' + 1) % 10);
			expect_bool("botpOCRA", "StepV(wrong)", botpOCRAStepV(want, q, ql, t, st), 0, i);
			break;
		default:
			if (!HASC[si])
				break;
			sk_text(OUT, "  %u StepG%s", i, mig ? " (migrated)" : "");
			botpOCRAStepG(g, st);
			cmp_out("botpOCRA", "counter", g, ctr, 8, i);
			break;
		}
	}
	sk_free(st);
}

/* WBL/KWP and FMT: one state serving several whole-buffer calls, relocated in between */
static void run_wbl(void)
{
	unsigned n = 1 + sk_below(&R, 4), i, Ld;
	size_t keep = beltWBL_keep();
	void* st;
	common(16, 0, 1, &Ld);
	OUT->nops = NEXT_IDX = n;
	sk_text(OUT, "bundle beltWBL/KWP key=%u calls=%u", (unsigned)klen, n);
	st = sk_alloc(keep);
	beltWBLStart(st, key, klen);
	for (i = 0; i < n && !OUT->violated; ++i)
	{
		static const size_t ls[] = { 32, 33, 47, 48, 49, 63, 64, 65, 80, 100, 200 };
		size_t len = ls[sk_below(&R, 11)];
		int dec = (int)sk_below(&R, 2), mig = sk_chance(&R, 1, 3);
		octet hdr[16];
		err_t code;
		sk_bytes(&R, msg, len), sk_bytes(&R, hdr, 16);
		if (!sk_keep(MASK, i))
			continue;
		if (mig)
			st = migrate(st, keep), sk_count("fault.state_migrated", 1);
		sk_text(OUT, "  %u %s len=%u%s", i, dec ? "StepD" : "StepE", (unsigned)len, mig ? " (migrated)" : "");
		/* reference through KWP: wrap = WBL-encrypt(key || header) */
		memcpy(buf, msg, len - 16), memcpy(buf + len - 16, hdr, 16);
		sk_heap_arm();
		code = beltKWPWrap(ref, msg, len - 16, hdr, key, klen);
		sk_heap_disarm();
		if (code != ERR_OK) { ref_fail("beltWBL", code); break; }
		if (!dec)
		{
			beltWBLStepE(buf, len, st);
			cmp_out("beltWBL", "ciphertext", buf, ref, len, i);
		}
		else
		{
			memcpy(buf, ref, len);
			if (sk_chance(&R, 1, 2))
				beltWBLStepD(buf, len, st);
			else
			{
				/* two-part decryption: the last 16 octets live elsewhere */
				octet tail[16];
				memcpy(tail, buf + len - 16, 16);
				beltWBLStepD2(buf, tail, len, st);
				memcpy(buf + len - 16, tail, 16);
			}
			cmp_out("beltWBL", "key", buf, msg, len - 16, i);
			cmp_out("beltWBL", "header", buf + len - 16, hdr, 16, i);
		}
	}
	sk_free(st);
}

static void run_fmt(void)
{
	static const u32 mods[] = { 2, 3, 10, 16, 58, 256, 257, 1000, 65536 };
	static const size_t cnts[] = { 2, 3, 9, 10, 17, 21, 33, 39, 64, 100 };
	u32 mod = mods[sk_below(&R, 9)];
	size_t count = cnts[sk_below(&R, 10)], keep, j;
	unsigned n = 1 + sk_below(&R, 4), i, Ld;
	void* st;
	static u16 src[128], dst[128], want[128];
	common(16, 0, 1, &Ld);
	keep = beltFMT_keep(mod, count);
	OUT->nops = NEXT_IDX = n;
	sk_text(OUT, "bundle beltFMT mod=%u count=%u key=%u calls=%u", (unsigned)mod, (unsigned)count, (unsigned)klen, n);
	st = sk_alloc(keep);
	beltFMTStart(st, mod, count, key, klen);
	for (i = 0; i < n && !OUT->violated; ++i)
	{
		int dec = (int)sk_below(&R, 2), mig = sk_chance(&R, 1, 3), useiv = (int)sk_below(&R, 3);
		octet fiv[16];
		err_t code;
		for (j = 0; j < count; ++j)
			src[j] = (u16)(sk_below(&R, mod));
		sk_bytes(&R, fiv, 16);
		if (!sk_keep(MASK, i))
			continue;
		if (mig)
			st = migrate(st, keep), sk_count("fault.state_migrated", 1);
		sk_text(OUT, "  %u %s%s", i, dec ? "StepD" : "StepE", mig ? " (migrated)" : "");
		memcpy(dst, src, 2 * count);
		sk_heap_arm();
		code = (dec ? beltFMTDecr : beltFMTEncr)(want, mod, src, count, key, klen, useiv ? fiv : 0);
		sk_heap_disarm();
		if (code != ERR_OK) { ref_fail("beltFMT", code); break; }
		(dec ? beltFMTStepD : beltFMTStepE)(dst, useiv ? fiv : 0, st);
		cmp_out("beltFMT", dec ? "plaintext" : "ciphertext", dst, want, 2 * count, i);
	}
	sk_free(st);
}

/* ------------------------------------------------------- huge fragments */
/* Variant "huge": the simulated source delivers a fragment of 2^29 octets or more in ONE call.
   That is where the octet count of a fragment no longer fits the 32-bit bit-length arithmetic of
   belt-hash/HMAC (beltBlockAddBitSizeU32, t = count >> 29) and of the DWP/CHE length block
   (beltHalfBlockAddBitSizeW); no test of the suite and no ordinary run of this engine reaches it.
   Reference: the same octets delivered in pieces of at most 2^28 octets, and the one-shot function.
   The data are a 4 MiB seeded tile mapped read-only again and again into 1 GiB + 8 MiB of address
   space (memfd), so that a run costs time but no memory. */
#include <sys/mman.h>
#include <unistd.h>
#define HUGE_TILE ((size_t)1 << 22)
#define HUGE_SPAN (((size_t)1 << 30) + ((size_t)1 << 23))
static const octet* huge_base;

static int huge_init(void)
{
	int fd;
	size_t o;
	octet* t;
	sk_rng g;
	if (huge_base)
		return 1;
	fd = memfd_create("sk_huge", 0);
	if (fd < 0 || ftruncate(fd, (off_t)HUGE_TILE) != 0)
	{
		sk_fault(OUT, "memfd_create/ftruncate failed");
		return 0;
	}
	t = (octet*)mmap(0, HUGE_TILE, PROT_READ | PROT_WRITE, MAP_SHARED, fd, 0);
	if (t == MAP_FAILED)
	{
		sk_fault(OUT, "mmap of the tile failed");
		return 0;
	}
	sk_rng_seed(&g, 0x68756765u); /* fixed: content is the same in every process */
	sk_bytes(&g, t, HUGE_TILE);
	munmap(t, HUGE_TILE);
	t = (octet*)mmap(0, HUGE_SPAN, PROT_NONE, MAP_PRIVATE | MAP_ANONYMOUS | MAP_NORESERVE, -1, 0);
	if (t == MAP_FAILED)
	{
		sk_fault(OUT, "mmap of the span failed");
		return 0;
	}
	for (o = 0; o < HUGE_SPAN; o += HUGE_TILE)
		if (mmap(t + o, HUGE_TILE, PROT_READ, MAP_SHARED | MAP_FIXED, fd, 0) == MAP_FAILED)
		{
		sk_fault(OUT, "mmap of a tile copy failed");
		return 0;
	}
	close(fd);
	huge_base = t;
	return 1;
}

enum { H_HASH, H_HMAC, H_MAC, H_BASH, H_DWP_I, H_DWP_A, H_CHE_I, H_CHE_A, H_PRG, H_N };
static const char* HN[] = { "beltHash", "beltHMAC", "beltMAC", "bashHash", "beltDWP:StepI", "beltDWP:StepA",
	"beltCHE:StepI", "beltCHE:StepA", "bashPrg:Absorb" };

typedef struct { int sch; size_t l; octet key[32]; size_t klen; octet iv[16]; void* st; } huge_t;

static size_t huge_keep(const huge_t* h)
{
	switch (h->sch)
	{
	case H_HASH: return beltHash_keep();
	case H_HMAC: return beltHMAC_keep();
	case H_MAC: return beltMAC_keep();
	case H_BASH: return bashHash_keep();
	case H_DWP_I: case H_DWP_A: return beltDWP_keep();
	case H_CHE_I: case H_CHE_A: return beltCHE_keep();
	default: return bashPrg_keep();
	}
}

static void huge_start(huge_t* h)
{
	h->st = sk_alloc(huge_keep(h));
	switch (h->sch)
	{
	case H_HASH: beltHashStart(h->st); break;
	case H_HMAC: beltHMACStart(h->st, h->key, h->klen); break;
	case H_MAC: beltMACStart(h->st, h->key, h->klen); break;
	case H_BASH: bashHashStart(h->st, h->l); break;
	case H_DWP_I: case H_DWP_A: beltDWPStart(h->st, h->key, h->klen, h->iv); break;
	case H_CHE_I: case H_CHE_A: beltCHEStart(h->st, h->key, h->klen, h->iv); break;
	default: bashPrgStart(h->st, h->l, 1, h->iv, 16, h->key, 32); bashPrgAbsorbStart(h->st); break;
	}
}

static void huge_step(huge_t* h, const octet* p, size_t n)
{
	switch (h->sch)
	{
	case H_HASH: beltHashStepH(p, n, h->st); break;
	case H_HMAC: beltHMACStepA(p, n, h->st); break;
	case H_MAC: beltMACStepA(p, n, h->st); break;
	case H_BASH: bashHashStepH(p, n, h->st); break;
	case H_DWP_I: beltDWPStepI(p, n, h->st); break;
	case H_DWP_A: beltDWPStepA(p, n, h->st); break;
	case H_CHE_I: beltCHEStepI(p, n, h->st); break;
	case H_CHE_A: beltCHEStepA(p, n, h->st); break;
	default: bashPrgAbsorbStep(p, n, h->st); break;
	}
}

static size_t huge_get(huge_t* h, octet out[32])
{
	size_t n = 32;
	memset(out, 0, 32);
	switch (h->sch)
	{
	case H_HASH: beltHashStepG(out, h->st); break;
	case H_HMAC: beltHMACStepG(out, h->st); break;
	case H_MAC: beltMACStepG(out, h->st), n = 8; break;
	case H_BASH: bashHashStepG(out, 32, h->st); break;
	case H_DWP_I: case H_DWP_A: beltDWPStepG(out, h->st), n = 8; break;
	case H_CHE_I: case H_CHE_A: beltCHEStepG(out, h->st), n = 8; break;
	default: bashPrgSqueeze(out, 32, h->st); break;
	}
	sk_free(h->st), h->st = 0;
	return n;
}

static void run_huge(void)
{
	static const size_t LV[] = { 128, 192, 256 };
	huge_t h;
	size_t off, L, pre, big, done, n, pieces = 0;
	unsigned lc, shape;
	octet single[32], pieced[32], oneshot[64];
	err_t code = ERR_MAX;
	if (!huge_init())
		return;
	memset(&h, 0, sizeof(h));
	h.sch = (int)sk_below(&R, H_N);
	h.l = LV[sk_below(&R, 3)];
	h.klen = 32;
	sk_bytes(&R, h.key, 32), sk_bytes(&R, h.iv, 16);
	off = (size_t)sk_below(&R, HUGE_TILE);
	/* total length: around the 2^29 border, beyond it, and (1 in 8) beyond 2^30 */
	lc = (unsigned)sk_below(&R, 8);
	L = lc == 0 ? ((size_t)1 << 29) :
		lc == 1 ? ((size_t)1 << 29) + 1 + (size_t)sk_below(&R, 64) :
		lc <= 4 ? ((size_t)1 << 29) + (size_t)sk_below(&R, (size_t)1 << 28) :
		lc <= 6 ? ((size_t)1 << 29) + ((size_t)1 << 28) + (size_t)sk_below(&R, (size_t)1 << 28) :
		((size_t)1 << 30) + (size_t)sk_below(&R, (size_t)1 << 22);
	/* delivery under test: [pre][one fragment of >= 2^29 octets][rest] */
	shape = (unsigned)sk_below(&R, 4);
	pre = shape & 1 ? 1 + (size_t)sk_below(&R, 95) : 0;
	big = shape & 2 ? ((size_t)1 << 29) + (size_t)sk_below(&R, L - pre - ((size_t)1 << 29) + 1) : L - pre;
	if (pre + big > L)
		pre = 0, big = L;
	sk_text(OUT, "bundle huge/%s l=%u offset=%u total=%llu: fragments %llu + %llu + %llu", HN[h.sch], (unsigned)h.l,
		(unsigned)off, (unsigned long long)L, (unsigned long long)pre, (unsigned long long)big,
		(unsigned long long)(L - pre - big));
	if (!sk_keep(MASK, 0))
		return;
	sk_count("fault.fragment_of_2^29_octets_or_more", 1);
	if (big >> 30)
		sk_count("fault.fragment_of_2^30_octets_or_more", 1);
	huge_start(&h);
	if (pre)
		huge_step(&h, huge_base + off, pre);
	huge_step(&h, huge_base + off + pre, big);
	if (L - pre - big)
		huge_step(&h, huge_base + off + pre + big, L - pre - big);
	n = huge_get(&h, single);
	/* reference 1: pieces of 2^24..2^28 octets */
	huge_start(&h);
	for (done = 0; done < L; done += n, ++pieces)
	{
		n = ((size_t)1 << 24) + (size_t)sk_below(&R, ((size_t)1 << 28) - ((size_t)1 << 24) + 1);
		if (n > L - done)
			n = L - done;
		huge_step(&h, huge_base + off + done, n);
	}
	n = huge_get(&h, pieced);
	sk_count("probe.huge_reference_pieces", (long)pieces);
	cmp_out("huge", HN[h.sch], single, pieced, n, (unsigned)(L >> 20));
	/* reference 2: the one-shot function, itself a single huge delivery */
	if (!OUT->violated && h.sch <= H_BASH)
	{
		memset(oneshot, 0, 64);
		sk_heap_arm();
		code = h.sch == H_HASH ? beltHash(oneshot, huge_base + off, L) :
			h.sch == H_HMAC ? beltHMAC(oneshot, huge_base + off, L, h.key, h.klen) :
			h.sch == H_MAC ? beltMAC(oneshot, huge_base + off, L, h.key, h.klen) :
			bashHash(oneshot, h.l, huge_base + off, L);
		sk_heap_disarm();
		if (code != ERR_OK)
			ref_fail("huge", code);
		else
			cmp_out("huge", "one-shot", oneshot, pieced, n, (unsigned)(L >> 20));
	}
	SHAPE = sk_mix((uint64_t)h.sch * 64 + lc * 4 + shape, h.sch == H_BASH || h.sch == H_PRG ? h.l : 0);
}

/* ------------------------------------------------------------ dispatcher */
enum { B_ECB, B_CBC, B_CFB, B_CTR, B_BDE, B_SDE, B_MAC, B_HASH, B_HMAC, B_DWP,
	B_CHE, B_KRP, B_BASHHASH, B_BASHPRG, B_BRNGCTR, B_BRNGHMAC, B_HOTP, B_TOTP, B_OCRA, B_WBL, B_FMT, B_N };
static const char* BN[] = { "ecb","cbc","cfb","ctr","bde","sde","mac","hash","hmac",
	"dwp","che","krp","bashhash","bashprg","brngctr","brnghmac","hotp","totp","ocra","wbl","fmt" };
static int only = -1;

static void init(const sk_opts* o)
{
	int i;
	for (i = 0; i < B_N; ++i)
		if (o->variant && !strcmp(o->variant, BN[i]))
			only = i;
	if (o->variant && !strcmp(o->variant, "huge"))
		only = B_N;
}

static void run(uint64_t seed, const sk_mask* mask, sk_result* out)
{
	int b;
	sk_rng_seed(&R, seed);
	OUT = out, MASK = mask, NEXT_IDX = 0, SHAPE = SK_DG_INIT;
	sk_heap_reset(sk_u64(&R));
	b = only >= 0 ? only : (int)sk_below(&R, B_N);
	if (b == B_N)
	{
		run_huge();
		out->nops = 1;
		sk_count("bundle.huge", 1);
		out->sig = SHAPE;
		return;
	}
	switch (b)
	{
	case B_ECB: run_cipher(C_ECB); break;
	case B_CBC: run_cipher(C_CBC); break;
	case B_CFB: run_cipher(C_CFB); break;
	case B_CTR: run_cipher(C_CTR); break;
	case B_BDE: run_cipher(C_BDE); break;
	case B_SDE: run_sde(); break;
	case B_MAC: run_mac(M_MAC); break;
	case B_HASH: run_mac(M_HASH); break;
	case B_HMAC: run_mac(M_HMAC); break;
	case B_DWP: run_aead(0); break;
	case B_CHE: run_aead(1); break;
	case B_KRP: run_krp(); break;
	case B_BASHHASH: run_bashhash(); break;
	case B_BASHPRG: run_bashprg(); break;
	case B_BRNGCTR: run_brngctr(); break;
	case B_BRNGHMAC: run_brnghmac(); break;
	case B_HOTP: run_hotp(); break;
	case B_OCRA: run_ocra(); break;
	case B_WBL: run_wbl(); break;
	case B_FMT: run_fmt(); break;
	default: run_totp(); break;
	}
	out->nops = NEXT_IDX;
	if (sk_heap_overrun())
		sk_violate(out, "state_overrun", "bundle %s wrote outside its _keep()-sized state or buffers", BN[b]);
	if (sk_heap_live() != 0)
		sk_violate(out, "leak", "bundle %s: %ld blocks left by the one-shot reference", BN[b], sk_heap_live());
	{
		char cn[40];
		snprintf(cn, sizeof(cn), "bundle.%s", BN[b]);
		sk_count(cn, 1);
	}
	/* coverage signature: bundle x fragmentation/event shape relative to the
	   internal block (offset and length classes, probe kind, migrations) */
	out->sig = sk_mix((uint64_t)b + 1, SHAPE);
}

static void summary(FILE* f) { (void)f; }

sk_engine sk_the_engine = { "streamsim", init, run, summary };
