"""Build orchestration, batching, violation gate, minimisation, evidence."""
import sys, os, re, json, time, hashlib, subprocess, shutil, array, signal
from concurrent.futures import ThreadPoolExecutor

VERIF = os.path.abspath(os.path.join(os.path.dirname(os.path.abspath(__file__)), '..', '..'))
REPO = os.environ.get('VERIF_REPO', '/repo')
BUILD = os.environ.get('VERIF_BUILD', os.path.join(VERIF, 'build'))
OUT = os.environ.get('VERIF_OUT', VERIF)
CC = 'clang'
NCPU = int(os.environ.get('VERIF_WORKERS', '16'))
GUARD = 'BEE2_VERIF'

UB = '-fsanitize=bounds,null,object-size,vla-bound,return,unreachable -fno-sanitize-recover=all'
CONFIGS = {
    # name: (lib cflags, harness defines, sanitizer link flags)
    'asan':   (f'-O1 -g -fno-omit-frame-pointer -fsanitize=address {UB}', '-DSK_ASAN', f'-fsanitize=address {UB}'),
    'asan32': (f'-O1 -g -fno-omit-frame-pointer -fsanitize=address {UB} -U__SIZEOF_INT128__', '-DSK_ASAN', f'-fsanitize=address {UB}'),
    'asanfast': (f'-O1 -g -fno-omit-frame-pointer -fsanitize=address {UB} -DSAFE_FAST', '-DSK_ASAN', f'-fsanitize=address {UB}'),
    'tsan':   ('-O1 -g -fno-omit-frame-pointer -fsanitize=thread -DNDEBUG', '-DSK_TSAN', '-fsanitize=thread'),
    # MemorySanitizer: fresh simulated-heap memory and C-stack locals are tracked as undefined, so a branch,
    # address or output that depends on them is reported at the point of use (C07 "no uninitialised memory")
    'msan':   ('-O1 -g -fno-omit-frame-pointer -fsanitize=memory', '-DSK_MSAN', '-fsanitize=memory'),
    'msan32': ('-O1 -g -fno-omit-frame-pointer -fsanitize=memory -U__SIZEOF_INT128__', '-DSK_MSAN', '-fsanitize=memory'),
    # source coverage of /repo/src under the engines (tools/coverage.sh; a measuring aid, not a check)
    'cov':    ('-O1 -g -fprofile-instr-generate -fcoverage-mapping', '-DSK_COV', '-fprofile-instr-generate -fcoverage-mapping'),
    'plain':  ('-O2 -g', '', ''),
    'plain32': ('-O2 -g -U__SIZEOF_INT128__', '', ''),
    'release': ('-O2 -g -DNDEBUG', '', ''),   # the build that ships: no ASSERTs, so output oracles decide alone
}
WRAPS = ['malloc', 'calloc', 'realloc', 'free']

from checks import CHECKS, ENGINES  # noqa: E402


def sh(cmd, **kw):
    return subprocess.run(cmd, shell=isinstance(cmd, str), stdout=subprocess.PIPE,
                          stderr=subprocess.PIPE, text=True, errors='replace', **kw)


def lib_sources():
    txt = open(os.path.join(REPO, 'src', 'CMakeLists.txt'), encoding='utf-8').read()
    m = re.search(r'set\(src\s+(.*?)\)', txt, re.S)
    return [s for s in m.group(1).split() if s.endswith('.c')]


def tree_hash(dirs, extra=''):
    h = hashlib.sha256(extra.encode())
    for d in dirs:
        for root, dn, fn in sorted(os.walk(d)):
            dn.sort()
            for f in sorted(fn):
                if f.endswith(('.c', '.h', '.txt', '.in', '.py')):
                    p = os.path.join(root, f)
                    h.update(p.encode())
                    with open(p, 'rb') as fh:
                        h.update(fh.read())
    return h.hexdigest()


def compile_many(jobs):
    """jobs: list of (src, obj, flags). Parallel compile; raises on error."""
    def one(j):
        src, obj, flags = j
        r = sh(f'{CC} -c {flags} -o {obj} {src}')
        return (src, r.returncode, r.stderr)
    with ThreadPoolExecutor(NCPU) as ex:
        res = list(ex.map(one, jobs))
    bad = [(s, e) for s, rc, e in res if rc != 0]
    if bad:
        for s, e in bad[:3]:
            sys.stderr.write(f'compile failed: {s}\n{e}\n')
        raise SystemExit(2)


def build_lib(config):
    cflags, _, _ = CONFIGS[config]
    out = os.path.join(BUILD, config, 'lib')
    os.makedirs(out, exist_ok=True)
    flags = (f'{cflags} -D{GUARD} -fno-strict-aliasing -I{REPO}/include -I{REPO}/src '
             '-Wno-everything')
    stamp = os.path.join(out, 'STAMP')
    hv = tree_hash([os.path.join(REPO, 'src'), os.path.join(REPO, 'include')], flags)
    srcs = lib_sources()
    objs = [os.path.join(out, s.replace('/', '_')[:-2] + '.o') for s in srcs]
    if os.path.exists(stamp) and open(stamp).read() == hv and all(os.path.exists(o) for o in objs):
        return objs
    for f in os.listdir(out):
        os.unlink(os.path.join(out, f))
    compile_many([(os.path.join(REPO, 'src', s), o, flags) for s, o in zip(srcs, objs)])
    open(stamp, 'w').write(hv)
    return objs


def build_engine(engine, config):
    """Compile kernel + engine sources and link against the freshly built library."""
    cflags, hdef, ldflags = CONFIGS[config]
    spec = ENGINES[engine]
    libobjs = build_lib(config)
    out = os.path.join(BUILD, config, engine)
    os.makedirs(out, exist_ok=True)
    kdir = os.path.join(VERIF, 'sim', 'kernel')
    edir = os.path.join(VERIF, 'sim', engine)
    cdir = os.path.join(VERIF, 'sim', 'common')
    inc = f'-I{kdir} -I{cdir} -I{REPO}/include -I{REPO}/src -D{GUARD} {hdef}'
    # uninstrumented kernel parts
    plainflags = f'-O1 -g -fno-omit-frame-pointer {inc} -Wall -Wno-unused-function'
    instflags = f'{cflags} {inc} -Wall -Wno-unused-function -Wno-unused-variable'
    jobs = []
    objs = []
    for f in ('heap.c', 'fiber.c') + tuple(spec.get('plain_sources', ())):
        src = os.path.join(kdir if f in ('heap.c', 'fiber.c') else edir, f)
        o = os.path.join(out, 'k_' + f[:-2] + '.o')
        jobs.append((src, o, plainflags)); objs.append(o)
    for f in ('simk.c', 'wipe.c'):
        o = os.path.join(out, 'k_' + f[:-2] + '.o')
        # the kernel's own bookkeeping is shared by all fibers by design: keep it out of TSan's view
        fl = instflags + (' -fno-sanitize=thread' if f == 'simk.c' else '')
        jobs.append((os.path.join(kdir, f), o, fl)); objs.append(o)
    for f in spec.get('common_sources', ()):
        o = os.path.join(out, 'c_' + f[:-2] + '.o')
        jobs.append((os.path.join(cdir, f), o, instflags)); objs.append(o)
    for f in spec['sources']:
        o = os.path.join(out, 'e_' + f[:-2] + '.o')
        jobs.append((os.path.join(edir, f), o, instflags)); objs.append(o)
    compile_many(jobs)
    binp = os.path.join(out, 'sim')
    wraps = ','.join('--wrap=' + w for w in WRAPS + list(spec.get('wraps', ())))
    r = sh(f'{CC} {ldflags} -o {binp} {" ".join(objs)} {" ".join(libobjs)} -Wl,{wraps} -ldl -lpthread -lm')
    if r.returncode != 0:
        sys.stderr.write(r.stderr)
        raise SystemExit(2)
    return binp


# ----------------------------------------------------------------- batches
def crash_detail(err):
    i = err.find('ERROR:')
    if i < 0:
        i = err.find('WARNING: MemorySanitizer')
    if i < 0:
        i = err.find('Assertion in')
    if i < 0:
        i = err.find('runtime error')
    if i < 0:
        return err[-2500:]
    j = err.find('Shadow bytes around', i)
    return err[max(0, i - 200):(j if j > 0 else i + 2500)][:2500]


def classify_crash(rc, err):
    m = re.search(r'Assertion in (\S+?)::(\d+)', err)
    if m:
        return f'crash:assert:{os.path.basename(m.group(1))}:{m.group(2)}'
    m = re.search(r'ERROR: AddressSanitizer: (\S+)', err)
    if m:
        # outermost library frame of the first stack = the API entry the harness called
        fn = ''
        first = err[m.end():]
        first = first[:first.find('\n\n')] if '\n\n' in first else first
        for fm in re.finditer(r'#\d+ 0x[0-9a-f]+ in (\S+) (\S+)', first):
            if '/src/' in fm.group(2) and '/sim/' not in fm.group(2):
                fn = ':' + fm.group(1)
        return f'crash:asan:{m.group(1)}{fn}'
    m = re.search(r'WARNING: MemorySanitizer: (\S+)', err)
    if m:
        fn = ''
        first = err[m.end():]
        first = first[:first.find('\n\n')] if '\n\n' in first else first
        for fm in re.finditer(r'#\d+ 0x[0-9a-f]+ in (\S+) (\S+)', first):
            if '/src/' in fm.group(2) and '/sim/' not in fm.group(2):
                fn = ':' + fm.group(1)
        return f'crash:msan:{m.group(1)}{fn}'
    m = re.search(r'ERROR: ThreadSanitizer: (\S+)', err)
    if m:
        fm = re.search(r'#0 (\S+) ', err[m.end():])
        return f'crash:tsan:{m.group(1)}' + (':' + fm.group(1) if fm else '')
    m = re.search(r'runtime error: ([^\n]{0,60})', err)
    if m:
        return 'crash:ubsan:' + re.sub(r'[^A-Za-z]+', '-', m.group(1))[:40]
    if rc == -14:
        return 'hang:watchdog'
    if rc < 0:
        return f'crash:signal:{-rc}'
    return f'crash:exit:{rc}'


class Leg:
    """One (engine, config, variant) batch."""
    def __init__(self, prop, engine, config, variant, runs, budget=0):
        self.prop, self.engine, self.config, self.variant = prop, engine, config, variant
        self.runs, self.budget = runs, budget
        self.binary = None
        self.summaries = []
        self.violations = []   # dicts: idx, run_seed, cls, detail, stable, nops
        self.faults = []
        self.crashes = []
        self.samples = []
        self.sigs = set()
        self.wall = 0.0

    def label(self):
        return f'{self.engine}/{self.config}' + (f'/{self.variant}' if self.variant else '')


def run_leg(leg, seed, tier, tmpdir, digests=False, workers=None):
    workers = workers or NCPU
    leg.binary = build_engine(leg.engine, leg.config)
    n = leg.runs
    per = (n + workers - 1) // workers
    slices = [(w * per, min(n, (w + 1) * per)) for w in range(workers) if w * per < n]
    t0 = time.time()

    def work(wi):
        a, b = slices[wi]
        cur = a
        outs = []
        while cur < b:
            st = os.path.join(tmpdir, f'{leg.engine}.{leg.config}.{leg.variant}.{wi}.status')
            sg = os.path.join(tmpdir, f'{leg.engine}.{leg.config}.{leg.variant}.{wi}.{cur}.sigs')
            cmd = [leg.binary, '--seed', str(seed), '--from', str(cur), '--to', str(b),
                   '--tier', tier, '--variant', leg.variant, '--property', leg.prop,
                   '--status', st, '--sigs', sg]
            if leg.budget:
                cmd += ['--budget', str(leg.budget)]
            if digests:
                cmd += ['--digests', os.path.join(tmpdir, f'dg.{leg.engine}.{leg.config}.{leg.variant}.{wi}.{cur}')]
            r = subprocess.run(cmd, stdout=subprocess.PIPE, stderr=subprocess.PIPE, text=True, errors='replace')
            outs.append((r, sg))
            done = False
            nxt = None
            for line in r.stdout.splitlines():
                if line.startswith('SUMMARY '):
                    done = True
                    m = re.search(r'"next":(\d+)', line)
                    if m:
                        nxt = int(m.group(1))
            if done and r.returncode == 0:
                break
            if done and r.returncode == 75 and nxt is not None:
                cur = nxt   # the engine asked for a fresh process (e.g. abandoned fibers)
                continue
            # crashed: attribute to the run in the status file
            try:
                raw = open(st, 'rb').read(16)
                idx1 = int.from_bytes(raw[0:8], 'little')
                rs = int.from_bytes(raw[8:16], 'little')
            except Exception:
                idx1, rs = 0, 0
            if idx1 == 0:
                leg.faults.append({'idx': -1, 'detail': f'worker died outside a run rc={r.returncode} {r.stderr[-400:]}'})
                break
            leg.crashes.append({'idx': idx1 - 1, 'run_seed': rs, 'rc': r.returncode,
                                'cls': classify_crash(r.returncode, r.stderr), 'detail': crash_detail(r.stderr)})
            cur = idx1
            if len(leg.crashes) > 40:
                break
        return outs

    with ThreadPoolExecutor(len(slices)) as ex:
        allouts = list(ex.map(work, range(len(slices))))
    for wi, outs in enumerate(allouts):
        for r, sg in outs:
            for line in r.stdout.splitlines():
                if line.startswith('SUMMARY '):
                    try:
                        leg.summaries.append(json.loads(line[8:]))
                    except Exception as e:
                        leg.faults.append({'idx': -1, 'detail': f'bad summary: {e}: {line[:200]}'})
                elif line.startswith('V '):
                    m = re.match(r'V (\d+) (\d+) (\S+) (\S+) (\d+) \| (.*)', line)
                    if not m:
                        leg.faults.append({'idx': -1, 'detail': f'unparseable violation line: {line[:200]}'})
                        continue
                    leg.violations.append({'idx': int(m.group(1)), 'run_seed': int(m.group(2)), 'cls': m.group(3),
                                           'stable': m.group(4) == 'stable', 'nops': int(m.group(5)), 'detail': m.group(6)})
                elif line.startswith('F '):
                    m = re.match(r'F (\d+) (\d+) (.*)', line)
                    leg.faults.append({'idx': int(m.group(1)), 'run_seed': int(m.group(2)), 'detail': m.group(3)})
                elif line.startswith('SAMPLE ') and len(leg.samples) < 4:
                    try:
                        leg.samples.append(json.loads(line[7:]))
                    except Exception:
                        pass
            if os.path.exists(sg):
                a = array.array('Q')
                with open(sg, 'rb') as fh:
                    data = fh.read()
                a.frombytes(data[:len(data) // 8 * 8])
                leg.sigs.update(a)
                os.unlink(sg)
    leg.wall = time.time() - t0
    return leg


def run_one(binary, run_seed, tier, variant, prop, keep=None, text=False, timeout=600):
    cmd = [binary, '--one', str(run_seed), '--tier', tier, '--variant', variant, '--property', prop]
    if keep is not None:
        cmd += ['--keep', ','.join(map(str, keep)) if keep else '99999999']
    if text:
        cmd += ['--text']
    try:
        r = subprocess.run(cmd, stdout=subprocess.PIPE, stderr=subprocess.PIPE, text=True, errors='replace', timeout=timeout)
    except subprocess.TimeoutExpired:
        return {'cls': 'hang', 'digest': '', 'detail': 'timeout', 'text': [], 'nops': 0, 'fault': False}
    res = {'cls': None, 'digest': '', 'detail': '', 'text': [], 'nops': 0, 'fault': False}
    for line in r.stdout.splitlines():
        if line.startswith('T '):
            res['text'].append(line[2:])
        elif line.startswith('RESULT '):
            kv = dict(x.split('=', 1) for x in line[7:].split(' ') if '=' in x)
            res['digest'] = kv.get('digest', '')
            res['nops'] = int(kv.get('nops', '0'))
            res['fault'] = kv.get('fault') == '1'
            if kv.get('violated') == '1':
                res['cls'] = kv.get('cls')
        elif line.startswith('DETAIL '):
            res['detail'] = line[7:]
    if r.returncode not in (0, 1, 2) or not res['digest']:
        res['cls'] = classify_crash(r.returncode, r.stderr)
        res['detail'] = crash_detail(r.stderr)
        if res['nops'] == 0:
            res['nops'] = 64   # crashed before reporting its plan size: indices beyond the plan are ignored
    return res


def ddmin(test, items):
    """Classic ddmin: smallest subset of items for which test(subset) is True."""
    n = 2
    items = list(items)
    budget = 400
    while len(items) >= 2 and budget > 0:
        chunk = max(1, len(items) // n)
        subsets = [items[i:i + chunk] for i in range(0, len(items), chunk)]
        reduced = False
        for i, s in enumerate(subsets):
            comp = [x for j, t in enumerate(subsets) if j != i for x in t]
            budget -= 1
            if test(comp):
                items = comp
                n = max(n - 1, 2)
                reduced = True
                break
        if not reduced:
            if n >= len(items):
                break
            n = min(len(items), n * 2)
    if len(items) == 1 and budget > 0 and test([]):
        items = []
    return items


def load_known():
    known, fixed = [], []
    p = os.path.join(VERIF, 'known_findings.txt')
    if os.path.exists(p):
        for line in open(p, encoding='utf-8'):
            line = line.strip()
            if not line or line.startswith('#'):
                continue
            if line.startswith('known:'):
                m = re.match(r'known:\s+property=(\S+)\s+class=(\S+)\s+match=/(.*?)/\s+::\s+(.*)', line)
                if m:
                    known.append({'property': m.group(1), 'cls': m.group(2), 'match': m.group(3), 'what': m.group(4)})
            elif line.startswith('fixed:'):
                fixed.append(line)
    return known, fixed


def match_known(known, prop, cls, detail):
    for k in known:
        if k['property'] == prop and k['cls'] == cls and re.search(k['match'], detail):
            return k
    return None


def cmd_run(prop, tier, seed):
    spec = CHECKS[prop]
    t0 = time.time()
    tmpdir = os.path.join(BUILD, 'tmp', f'{prop}.{os.getpid()}')
    os.makedirs(tmpdir, exist_ok=True)
    os.makedirs(os.path.join(OUT, 'evidence'), exist_ok=True)
    known, _ = load_known()
    legs = []
    for l in spec['legs']:
        runs = l['runs'][1 if tier == 'thorough' else 0]
        if runs <= 0:
            continue
        scale = float(os.environ.get('VERIF_SCALE', '1'))
        leg = Leg(prop, l['engine'], l['config'], l.get('variant', ''), max(1, int(runs * scale)), l.get('budget', [0, 0])[1 if tier == 'thorough' else 0])
        print(f'[{prop}] leg {leg.label()} runs={leg.runs}', flush=True)
        run_leg(leg, seed, tier, tmpdir)
        legs.append(leg)
        s = sum(x['runs'] for x in leg.summaries)
        print(f'[{prop}]   done {s} runs in {leg.wall:.1f}s, violations={len(leg.violations)} crashes={len(leg.crashes)} faults={len(leg.faults)}', flush=True)

    # ---- triage
    harness_fault = False
    reported = []      # (leg, cand, replay path)
    known_hits = {}
    for leg in legs:
        if leg.faults:
            harness_fault = True
            for f in leg.faults[:5]:
                print(f'HARNESS-FAULT {leg.label()} {f}', flush=True)
        cands = leg.violations + leg.crashes
        seen_cls = {}
        for c in sorted(cands, key=lambda c: (c['cls'], c.get('nops', 0), c['idx'])):
            k = match_known(known, prop, c['cls'], c['detail'])
            if k is not None:
                known_hits.setdefault((k['cls'], k['what']), 0)
                known_hits[(k['cls'], k['what'])] += 1
                continue
            seen_cls.setdefault(c['cls'], []).append(c)
        for cls, cs in list(seen_cls.items())[:6]:
            c = cs[0]
            # fresh-process gate
            r1 = run_one(leg.binary, c['run_seed'], tier, leg.variant, prop)
            # TSan reports each distinct race once per process, so a tsan class cannot repeat in-process
            if r1['cls'] != cls or ('stable' in c and not c['stable'] and not cls.startswith('tsan:')):
                print(f'HARNESS-FAULT {leg.label()} run_seed={c["run_seed"]} class {cls} did not reproduce in a fresh process (got {r1["cls"]})', flush=True)
                harness_fault = True
                continue
            # known-finding match needs the replayed detail for crashes too
            keep = list(range(r1['nops']))
            if r1['nops'] > 1 and not cls.startswith('hang'):   # every probe of a hang costs a full watchdog period
                def test(sub, cls=cls, c=c, leg=leg):
                    rr = run_one(leg.binary, c['run_seed'], tier, leg.variant, prop, keep=sub)
                    return rr['cls'] == cls
                keep = ddmin(test, keep)
            rf = run_one(leg.binary, c['run_seed'], tier, leg.variant, prop, keep=keep if r1['nops'] > 0 else None, text=True)
            if rf['cls'] != cls:
                keep = None
                rf = run_one(leg.binary, c['run_seed'], tier, leg.variant, prop, text=True)
            k = match_known(known, prop, cls, rf['detail'])
            if k is not None:
                known_hits.setdefault((k['cls'], k['what']), 0)
                known_hits[(k['cls'], k['what'])] += len(cs)
                continue
            os.makedirs(os.path.join(OUT, 'replays'), exist_ok=True)
            path = os.path.join(OUT, 'replays', f'{prop}-{leg.engine}-{leg.config}-{c["run_seed"]}.json')
            json.dump({'property': prop, 'engine': leg.engine, 'config': leg.config, 'variant': leg.variant,
                       'tier': tier, 'verif_seed': seed, 'run_index': c['idx'], 'run_seed': c['run_seed'],
                       'keep': keep if (keep is not None and r1['nops'] > 0) else None,
                       'class': cls, 'detail': rf['detail'], 'plan': rf['text'], 'occurrences_in_batch': len(cs),
                       'replay_cmd': f'bin/simctl replay {path}'}, open(path, 'w'), indent=1)
            reported.append((leg, c, path, cls))

    for (cls, what), n in known_hits.items():
        print(f'KNOWN-FINDING: property={prop} {what} [class={cls} seen={n}]', flush=True)
    for leg, c, path, cls in reported:
        print(f'VIOLATION property={prop} replay={path}', flush=True)
        print(f'  class={cls} leg={leg.label()} run_seed={c["run_seed"]}', flush=True)

    # ---- mandatory probes
    probes_missing = []
    ctr = {}
    for leg in legs:
        for s in leg.summaries:
            for k, v in s.get('counters', {}).items():
                ctr[k] = ctr.get(k, 0) + v
    for p in spec.get('mandatory_probes', {}).get(tier, spec.get('mandatory_probes', {}).get('any', [])):
        if ctr.get(p, 0) == 0:
            probes_missing.append(p)
    if probes_missing and not reported:
        print(f'HARNESS-FAULT mandatory probes at zero: {probes_missing}', flush=True)
        harness_fault = True

    # ---- evidence
    total_runs = sum(s['runs'] for leg in legs for s in leg.summaries)
    allsigs = set()
    for leg in legs:
        allsigs |= {(hash(leg.engine + leg.variant) ^ s) & (2**64 - 1) for s in leg.sigs} if spec.get('sigs_per_leg') else leg.sigs
    wall = time.time() - t0
    samples = []
    for leg in legs:
        for smp in leg.samples[:2]:
            samples.append({'leg': leg.label(), 'plan': smp.strip().split('\n')[:60]})
    ev = {
        'property_id': prop, 'tier': tier, 'seed': seed, 'level': spec['level'],
        'coverage': {
            'evaluations': int(total_runs),
            'distinct_nontrivial': len(allsigs),
            'rule': spec['rule'],
            'samples': samples[:8] or [{'note': 'no sample captured'}],
            'exhaustive': False,
            'legs': [{'leg': leg.label(), 'runs': int(sum(s['runs'] for s in leg.summaries)), 'wall_s': round(leg.wall, 2),
                      'distinct_signatures': len(leg.sigs),
                      'extra': {k: v for s in leg.summaries[:1] for k, v in s.items() if k not in ('runs', 'next', 'violations', 'harness_faults', 'distinct', 'nontrivial', 'wall_s', 'counters')}}
                     for leg in legs],
            'runs_per_hour': int(total_runs / max(wall, 1e-3) * 3600),
            'counters_fired': ctr,
            'fault_kinds_fired': {k[6:]: v for k, v in ctr.items() if k.startswith('fault.')},
            'probes': {k[6:]: v for k, v in ctr.items() if k.startswith('probe.')},
            'simulated_steps': ctr.get('steps', 0),
            'components_real': spec['real'], 'components_stub': spec['stub'],
            'known_findings_seen': [{'class': c, 'what': w, 'count': n} for (c, w), n in known_hits.items()],
            'workers': NCPU,
        },
        'assumptions': spec['assumptions'],
        'wall_s': round(wall, 2),
        'violations': len(reported),
    }
    json.dump(ev, open(os.path.join(OUT, 'evidence', f'{prop}.json'), 'w'), indent=1)
    shutil.rmtree(tmpdir, ignore_errors=True)
    print(f'[{prop}] tier={tier} seed={seed} runs={total_runs} distinct={len(allsigs)} wall={wall:.1f}s violations={len(reported)} known={len(known_hits)}', flush=True)
    if reported:
        return 1
    if harness_fault:
        return 2
    return 0


def cmd_replay(path):
    j = json.load(open(path))
    binary = build_engine(j['engine'], j['config'])
    r = run_one(binary, j['run_seed'], j['tier'], j['variant'], j['property'], keep=j.get('keep'), text=True)
    for t in r['text']:
        print('  ' + t)
    print(f'replayed class={r["cls"]} digest={r["digest"]}')
    if r['detail']:
        print(r['detail'])
    if r['cls'] == j['class']:
        print(f'VIOLATION property={j["property"]} replay={path}')
        return 1
    print('not reproduced on this tree')
    return 0


def cmd_selftest(prop, runs):
    """Determinism gate: every leg, `runs` seeds, executed twice with different
    worker counts in fresh processes; per-run digests must agree."""
    spec = CHECKS[prop]
    bad = 0
    for l in spec['legs']:
        res = []
        for workers in (16, 3):
            tmpdir = os.path.join(BUILD, 'tmp', f'st.{prop}.{os.getpid()}.{workers}')
            os.makedirs(tmpdir, exist_ok=True)
            nruns = min(runs, l['runs'][0] or l['runs'][1])   # a leg whose runs take seconds (C10 huge) is tested at its quick size
            leg = Leg(prop, l['engine'], l['config'], l.get('variant', ''), nruns)
            run_leg(leg, 1, 'quick', tmpdir, digests=True, workers=workers)
            d = {}
            for f in os.listdir(tmpdir):
                if f.startswith('dg.'):
                    for line in open(os.path.join(tmpdir, f)):
                        i, h = line.split()
                        d[int(i)] = h
            shutil.rmtree(tmpdir, ignore_errors=True)
            res.append(d)
        diff = [i for i in res[0] if res[0][i] != res[1].get(i)]
        print(f'selftest {prop} {leg.label()}: {len(res[0])} runs x2, mismatches={len(diff)}')
        bad += len(diff) + (len(res[0]) != nruns)
    return 2 if bad else 0


def cmd_baseline_off():
    d = '/var/tmp/bee2_baseline_off'
    shutil.rmtree(d, ignore_errors=True)
    r = subprocess.run(f'cmake -G Ninja -S {REPO} -B {d} >/dev/null && cmake --build {d} >/dev/null && ctest --test-dir {d} -j8 --timeout 900', shell=True)
    shutil.rmtree(d, ignore_errors=True)
    return r.returncode


def main(argv):
    if not argv:
        print(__doc__)
        return 2
    if argv[0] == 'build':
        os.makedirs(BUILD, exist_ok=True)
        r = sh(f'{CC} --version')
        print(r.stdout.splitlines()[0] if r.stdout else 'clang missing')
        return 0 if r.returncode == 0 else 2
    if argv[0] == 'run':
        prop = argv[1]
        tier = os.environ.get('VERIF_TIER', 'quick')
        if '--tier' in argv:
            tier = argv[argv.index('--tier') + 1]
        seed = int(os.environ.get('VERIF_SEED', '1'))
        return cmd_run(prop, tier, seed)
    if argv[0] == 'replay':
        return cmd_replay(argv[1])
    if argv[0] == 'selftest':
        runs = int(argv[argv.index('--runs') + 1]) if '--runs' in argv else 2000
        return cmd_selftest(argv[1], runs)
    if argv[0] == 'baseline-off':
        return cmd_baseline_off()
    print(__doc__)
    return 2
