"""Check table: which engines/configs/run counts decide which property."""

ENGINES = {
    'pwdsim': {'sources': ['pwdsim.c']},
    'streamsim': {'sources': ['streamsim.c']},
    'mtsim': {'sources': ['mtsim.c'], 'plain_sources': ['mtwrap.c'],
              'wraps': ['pthread_mutex_init', 'pthread_mutex_lock', 'pthread_mutex_unlock', 'pthread_mutex_destroy', 'atexit']},
    'protosim': {'sources': ['protosim.c', 'channel.c', 'proto_bake.c', 'proto_sm.c', 'proto_cvc.c'], 'common_sources': ['b2util.c']},
    'faultcall': {'sources': ['faultcall.c', 'fc_belt.c', 'fc_misc.c', 'fc_bign.c', 'fc_proto.c', 'fc_math.c', 'fc_math2.c', 'fc_ww.c', 'fc_util.c', 'fc_other.c', 'fc_der.c', 'fc_params.c', 'fc_rng.c', 'fc_sm.c'], 'plain_sources': ['fc_exit.c'], 'wraps': ['atexit'], 'common_sources': ['b2util.c']},
}

REAL_ALL = ['all of /repo/src compiled from the current working tree with -DBEE2_VERIF']

CHECKS = {
    'C04': {
        'level': 'exploration',
        'legs': [
            {'engine': 'protosim', 'config': 'asan', 'variant': 'bake', 'runs': [20000, 2000000]},
            {'engine': 'protosim', 'config': 'asan32', 'variant': 'bake', 'runs': [4000, 400000]},
            {'engine': 'protosim', 'config': 'asan', 'variant': 'bakesweep', 'runs': [48, 6000]},
            {'engine': 'protosim', 'config': 'asan', 'variant': 'bakeadv', 'runs': [3000, 300000]},
            {'engine': 'protosim', 'config': 'asan', 'variant': 'baketape', 'runs': [1500, 150000]},
        ],
        'sigs_per_leg': True,
        'rule': ('a case is one simulated session of BMQV, BSTS, BPACE or BAUTH between two party tasks that share only the simulated channel, followed by a '
                 'fault-free recovery session with the same long-term keys: protocol x l in {128,192,256} x confirmation flags x driver per side (library RunA/RunB or a '
                 'step-by-step host) x hello strings (absent, empty, 1..100 octets) x certificate length (incl. |M2|/|M3| above one 512-octet chunk and exact multiples of 512) x '
                 'generator tapes (uniform / first draws 0 or FF.. forcing rejection sampling) x 0..2 channel faults attached to a message (single/multi octet substitution, '
                 'bad-point substitution, truncate, extend, drop, duplicate, replay from the previous session, short reads, read/write errors, stall) x inconsistent configuration '
                 '(different passwords, private key not matching the certificate, different hello, wrong peer certificate); distinct = distinct (protocol, l, flags, drivers, mismatch, '
                 'fault kinds x messages, who accepted) tuples; every session is non-trivial (two parties exchange >= 2 messages). '
                 'Leg bakeadv: one side of BPACE is an adversary task that does not know the password, offers the off-curve point (x, 0) (order 2 on the curve it defines) and derives '
                 'its key and confirmation tag from the guess u(x,0) = (x,0); the victim (step host or Run driver, either role) must fail where it requires confirmation and must never hold the predicted key. '
                 'Leg baketape ("for every generator output"): a fault-free session is repeated once per generator draw of either party with the lowest bit of exactly that draw inverted; '
                 'a message or a key must change (a nonce or scalar that changes nothing was overwritten or ignored). '
                 'Leg bakesweep: one run draws a configuration and then alters EVERY octet position of EVERY message in turn (one session per position): '
                 'the single-octet quantifier is enumerated completely for each configuration drawn (quick: l = 128; thorough: all three curves)'),
        'real': REAL_ALL,
        'stub': ['the transport between the parties (simulated message channel behind the library\'s read_i/write_i)', 'both parties\' generators (seeded tapes)', 'certificate validation callback (prefix || public key, as in the repository\'s own test)'],
        'assumptions': [
            'reference channel = the repository test channel\'s read semantics made blocking (DESIGN.md C04); everything else read_i permits is a fault kind',
            'a party accepts iff all its steps including StepG returned ERR_OK',
            'tampered oracle: never both accept with equal keys; with any confirmation flag set, not both accept',
            'fragmented delivery counts as honest only where the reader reassembles (BSTS M2/M3 in the Run drivers, every message in the step hosts)',
            'MAC forgery / hash collision probabilities (2^-64) are ignored',
        ],
        'mandatory_probes': {'any': ['probe.honest_sessions', 'probe.tampered_sessions', 'probe.bsts_multiblock_path', 'probe.rejection_sampled', 'probe.read_timed_out', 'fault.corrupt1', 'fault.point_subst', 'fault.replay', 'fault.fragment', 'probe.sweep_configs_completed']},
    },
    'C17': {
        'level': 'exploration',
        'legs': [
            {'engine': 'protosim', 'config': 'asan', 'variant': 'sm', 'runs': [150000, 15000000]},
            {'engine': 'protosim', 'config': 'asan', 'variant': 'cvc', 'runs': [2500, 300000]},
            {'engine': 'protosim', 'config': 'asan', 'variant': 'pki', 'runs': [600, 60000]},
            {'engine': 'protosim', 'config': 'asan32', 'variant': 'sm', 'runs': [50000, 5000000]},
            {'engine': 'protosim', 'config': 'asan32', 'variant': 'cvc', 'runs': [800, 100000]},
        ],
        'sigs_per_leg': True,
        'rule': ('three sub-simulations. sm: a terminal/card dialogue of 1..6 command/response exchanges over a faulty transport (CDF 0..300 across the 255/256 switch points, '
                 'Le absent/short/extended, counters pre-advanced to just below a carry; substitution, truncation, extension, drop+retry, missing/double CtrInc); '
                 'cvc: a chain root -> CA -> terminal of depth 1..3 over key lengths 24/32/48/64 with random names, validity windows and access words, deliberately invalid issuances, '
                 'then validations on a simulated calendar (boundaries, outside the window, jumps, impossible dates), stored-certificate bit flips and wrong issuers; '
                 'pki: password containers (iter 10000) under bit flips, truncation and wrong passwords. distinct = distinct (message shape, fault kinds) / (level, key length, violation) / '
                 '(kind, key length, fault) tuples'),
        'real': REAL_ALL,
        'stub': ['APDU transport between terminal and card', 'the verifier\'s calendar (dates are arguments of btokCVCVal)', 'certificate/container storage (bit flips, truncation)', 'key generation tapes'],
        'assumptions': [
            'SM: out-of-step with equal parity is unspecified (the MAC does not cover the counter) and only checked for memory safety',
            'ground-truth predicates for issuance/validation are assembled from the conditions listed in btok.h only',
            'a single flipped bit anywhere in a stored certificate or container must make validation/unwrapping fail (forgery probability 2^-64 ignored)',
            'the hidden global RNG (rngIsValid()/rngStepR inside CVC signing) is absent in two thirds of the cvc runs and created on simulated entropy (H-rng-es) in one third',
        ],
        'mandatory_probes': {'any': ['probe.sm_instep_roundtrip', 'probe.sm_altered_checked', 'probe.sm_wrong_parity_refused', 'probe.sm_sweep_positions', 'probe.cvc_parse_back', 'probe.cvc_global_rng_present', 'fault.cvc_clock_outside_validity', 'fault.cvc_stored_bit_flip', 'probe.pki_intact_roundtrip', 'fault.pki_wrong_password']},
    },
    'C18': {
        'level': 'exploration',
        'legs': [
            {'engine': 'mtsim', 'config': 'tsan', 'variant': '', 'runs': [60000, 6000000]},
            {'engine': 'mtsim', 'config': 'tsan', 'variant': 'once', 'runs': [100000, 10000000]},
            {'engine': 'mtsim', 'config': 'asan', 'variant': '', 'runs': [30000, 3000000]},
            {'engine': 'mtsim', 'config': 'asan', 'variant': 'once', 'runs': [40000, 4000000]},
            {'engine': 'mtsim', 'config': 'tsan', 'variant': 'exit', 'runs': [30000, 3000000]},
            {'engine': 'mtsim', 'config': 'asan', 'variant': 'exit', 'runs': [20000, 2000000]},
        ],
        'sigs_per_leg': True,
        'rule': ('a case is one seeded schedule of 2..8 (thorough: 2..16) simulated caller threads, each a generated sequence of 1..10 operations from '
                 '{rngCreate (with/without extra source), rngStepR, rngStepR2, rngRekey, rngIsValid, rngClose} obeying the reference-holding contract '
                 '(variant "once": mtCallOnce on one trigger, mtAtomicIncr/Decr, a CAS spin lock), under one of four scheduling strategies '
                 '(uniform, PCT depth 0..3, round robin with random quantum, starve-one) with yield points before every atomic, around every mutex '
                 'operation, inside entropy reads and at allocations, and with entropy/allocation/mutex-init/atexit faults; the process-lifetime statics are '
                 'reset per run so every run contains the first-initialisation race; distinct = distinct synchronisation-order signatures '
                 '(digest of the sequence of (task, sync-op kind, object)); every run is non-trivial (>= 2 tasks interleaved)'),
        'real': ['src/core/mt.c, rng.c, util.c, blob.c, mem.c and the brngCTR/beltHash code they call, compiled from the current tree (tsan leg with NDEBUG, asan leg with ASSERTs)'],
        'stub': ['entropy sources trng/trng2/sys/sys2/timer (H-rng-es: seeded bytes, missing/short/error faults)', 'blocking in pthread_mutex_lock (the scheduler parks the fiber; the real lock is taken when free)',
                 'atexit (recorded, run at simulated process exit)', 'libc malloc (simulated arena; event-keyed allocation faults)', 'OS threads (ucontext fibers registered with TSan/ASan fiber APIs)'],
        'assumptions': [
            'preemption only at synchronisation points, allocations and entropy reads; for race-free code that is complete, and races are TSan reports in any schedule where both accesses occur unordered',
            'weak-memory reorderings are not executed; the data-race oracle is the C11 happens-before definition as implemented by ThreadSanitizer',
            'TSan reports each distinct race once per process, so the count of violating schedules is a lower bound',
            'linearizability oracle: the same operations replayed single-threaded in _mtx acquisition order with the recorded entropy answers must give identical return codes and output octets',
        ],
        'mandatory_probes': {'any': ['probe.mutex_contended', 'probe.linearizability_checked_ops', 'probe.entropy_starved_create', 'fault.state_alloc_failed', 'probe.exit_handlers_run', 'probe.recovery_checked']},
    },
    'C07': {
        'level': 'exploration',
        'legs': [
            {'engine': 'faultcall', 'config': 'asan', 'variant': 'base', 'runs': [10000, 600000]},
            {'engine': 'faultcall', 'config': 'asan32', 'variant': 'base', 'runs': [5000, 300000]},
            {'engine': 'faultcall', 'config': 'asanfast', 'variant': 'base', 'runs': [4000, 200000]},   # SAFE_FAST: the fast editions
            {'engine': 'faultcall', 'config': 'asan', 'variant': 'badmem', 'runs': [5000, 150000]},    # the refused inputs (C09's variants), judged for memory safety only
            {'engine': 'faultcall', 'config': 'asan32', 'variant': 'badmem', 'runs': [2000, 40000]},
            {'engine': 'streamsim', 'config': 'asan', 'runs': [100000, 3000000]},
            {'engine': 'streamsim', 'config': 'asan32', 'runs': [50000, 1500000]},
            {'engine': 'mtsim', 'config': 'asan', 'variant': 'exit', 'runs': [20000, 1000000]},
            {'engine': 'protosim', 'config': 'asan', 'variant': 'bakebase', 'runs': [3000, 300000]},
            {'engine': 'protosim', 'config': 'asan32', 'variant': 'bakebase', 'runs': [1000, 100000]},
        ],
        'sigs_per_leg': True,
        'rule': ('a case is one fault-free simulated call (faultcall: one of the high-level functions with valid arguments over its documented '
                 'size range, every caller buffer and every library blob at exactly its documented size on the simulated heap, executed three times: '
                 'twice under different seeded heap and C-stack garbage, once with fresh memory holding the stale image the previous identical call left) '
                 'or one simulated stream (streamsim: states at exactly _keep() octets) or one fault-free protocol session executed under garbage A, '
                 'garbage B and the stale image of a sibling session with the same keys (protosim/bakebase); '
                 'distinct = distinct (function, argument-size variant, allocation trace) resp. (bundle, fragmentation shape) signatures; '
                 'trivial cases (none) are not produced'),
        'real': REAL_ALL,
        'stub': ['libc malloc/realloc/free (exact-size arena with red zones, seeded garbage, blobs un-rounded via H-blob)'],
        'assumptions': [
            'partial by construction (DESIGN.md C07): only what the environment half can decide - exact sizes, red zones, garbage differential, ASSERTs on',
            'math-layer functions with a caller stack have their own descriptors (fc_math.c, fc_math2.c: zz, pp, pri, zm, qr, gfp, gf2, ec, ecp, ec2); word-level (ww) and stack-free functions are reached only through their callers',
            'UBSan alignment/integer checks are off (bee2 does unaligned word loads by design)',
        ],
        'mandatory_probes': {'any': ['calls', 'fault.state_migrated', 'probe.several_exit_destructors', 'probe.protocol_sessions_twice']},
    },
    'C09': {
        'level': 'fault_enumeration',
        'legs': [
            {'engine': 'faultcall', 'config': 'asan', 'variant': 'alloc', 'runs': [5000, 300000]},
            {'engine': 'faultcall', 'config': 'asan', 'variant': 'badarg', 'runs': [5000, 200000]},
            {'engine': 'faultcall', 'config': 'asan32', 'variant': 'alloc', 'runs': [0, 50000]},
            {'engine': 'faultcall', 'config': 'asan32', 'variant': 'badarg', 'runs': [0, 30000]},
            {'engine': 'protosim', 'config': 'asan', 'variant': 'bakealloc', 'runs': [600, 60000]},
        ],
        'sigs_per_leg': True,
        'rule': ('alloc leg: a case is one generated valid call of one high-level function; its N allocations are measured in a fault-free run, then the '
                 'identical call is re-run N times with allocation #k failing and N-1 times with #k and all later ones failing (complete enumeration '
                 'of single allocation faults per call); distinct = distinct (function, N, k, single/persistent) tuples. badarg leg: every invalid '
                 'variant the descriptor derives from the header\'s \\expect lines (scalar swept across and beyond its domain, corrupted '
                 'tokens/tags for authenticated unwraps) plus random pairs; distinct = distinct (function, variant[, second variant])'),
        'real': REAL_ALL,
        'stub': ['libc malloc/realloc/free (simulated heap with failure injection)', 'caller generator (seeded tape, all-zero tape for ERR_BAD_RNG/ANG exits)'],
        'assumptions': [
            'expected error classes are taken from the \\expect{ERR_...} lines of the headers; where a header names no class (btok CVC, bpki unwrap) any error code is accepted',
            'when two arguments are invalid, either named class is accepted (headers do not fix precedence)',
            'no-release check: an 8-octet window of the protected plaintext/key must not be in the destination after a failed authenticated unwrap (accidental match 2^-64)',
            'protocol drivers (bake Run*, BAUTH steps) are enumerated by the protosim legs of C04, not here',
        ],
        'mandatory_probes': {'any': ['fault.alloc_fail_single', 'fault.alloc_fail_persistent', 'fault.bad_argument', 'probe.alloc_fault_after_first_alloc', 'probe.auth_failure_checked']},
    },
    'C15': {
        'level': 'exploration',
        'legs': [
            {'engine': 'faultcall', 'config': 'asan', 'variant': 'wipe', 'runs': [10000, 500000]},
            {'engine': 'protosim', 'config': 'asan', 'variant': 'bake', 'runs': [6000, 600000]},
            {'engine': 'protosim', 'config': 'asan', 'variant': 'bakediff', 'runs': [4000, 400000]},
        ],
        'sigs_per_leg': True,
        'rule': ('a case is one secret-taking high-level call executed twice from an identical simulator state (same public arguments, arena addresses, '
                 'memWipe counter) with two independent secrets, at a seeded exit: success, the error exit behind failed allocation #k, or a '
                 'descriptor error variant (bad key, corrupted token, dead generator); every block handed to free / left by a moving realloc / still '
                 'live at return is snapshotted; distinct = distinct (function, return code, allocation trace) exits reached. '
                 'Second leg: the bake/BAUTH sessions of C04 (faulted and tampered sessions reach the drivers\' error exits); every block released during a session '
                 'and every block still allocated when both parties returned is scanned for 8-octet windows of the private keys, the password and the session keys. '
                 'Third leg: the two-secret differential applied to whole sessions - same shape, schedule, heap garbage and (in half of the runs) the same failed allocation, '
                 'two unrelated sets of private keys, passwords and generator tapes; paired released blocks must agree except where the octets are on the wire, '
                 'in a certificate or in a hello message of their own run (catches decrypted message parts and derived keys the harness cannot name)'),
        'real': REAL_ALL,
        'stub': ['libc malloc/realloc/free (arena; realloc always moves)', 'caller generator (seeded tape drawn from the secret stream)'],
        'assumptions': [
            'a released region that differs between the two secrets and is byte-identical to public output of the same run is excused',
            'pairs whose allocation traces or return codes differ are not compared (counted as incomparable) and fall back to the raw-secret window scan',
            'memWipe counter restarted through the guarded hook memVerifReset (H-reset); the real memWipe stays under test',
        ],
        'mandatory_probes': {'any': ['compared_pairs', 'probe.alloc_fault_after_secret_loaded', 'fault.error_variant', 'probe.protocol_sessions_scanned', 'probe.protocol_error_exit_scanned']},
    },
    'C10': {
        'level': 'exploration',
        'legs': [
            {'engine': 'streamsim', 'config': 'asan', 'runs': [300000, 6000000]},
            {'engine': 'streamsim', 'config': 'asan32', 'runs': [100000, 2000000]},
            {'engine': 'streamsim', 'config': 'plain', 'runs': [400000, 40000000]},
            {'engine': 'streamsim', 'config': 'release', 'runs': [400000, 40000000]},
            {'engine': 'streamsim', 'config': 'release', 'variant': 'huge', 'runs': [16, 320]},
        ],
        'rule': ('a case is one simulated stream for one of 21 Start/Step/Get bundles: message of 0..~4 internal blocks, cut into 1..7 '
                 'fragments by the simulated source (boundaries biased to block-1/block/block+1/0, empty fragments where the header allows), '
                 'with mid-stream Get/Verify probes and state migrations (copy to a fresh exact-size block, old block scribbled and released) '
                 'interleaved; distinct = distinct (bundle, sequence of (offset mod block, length mod block, blocks), probe kinds, migrations) signatures; '
                 'a run with a single whole-message delivery and no event is still counted (it is the degenerate split). '
                 'Leg huge: one fragment of 2^29..2^30+ octets in a single call (hash, HMAC, MAC, bash hash, DWP/CHE StepI/StepA, bash automaton absorb) '
                 'against the same octets in pieces of at most 2^28 octets and against the one-shot function'),
        'real': REAL_ALL,
        'stub': ['the data source (fragmentation), the caller process that checkpoints/relocates states'],
        'assumptions': [
            'oracle = the library\'s own one-shot high-level function over the concatenation (same build)',
            'splits restricted to those each header permits (ECB/CBC fragments >= 16 with ragged tail last, BDE whole blocks, SDE whole sectors)',
            'migration applied only to bundles whose header declares the state copyable (belt, brng, botp); brngHMAC iv buffer kept alive only when iv_len > 64 as the header requires',
            'brngCTR driven with zero-filled buffers',
            'a 10^-digit OTP collision is computed, not assumed away',
        ],
        'mandatory_probes': {'any': ['probe.exact_fill', 'probe.one_short', 'probe.one_over', 'probe.get_on_partial_block', 'fault.state_migrated', 'fault.empty_fragment']},
    },
    'C20': {
        'level': 'exploration',
        'legs': [
            {'engine': 'pwdsim', 'config': 'asan', 'runs': [40000, 400000]},
            {'engine': 'pwdsim', 'config': 'plain', 'runs': [400000, 40000000]},
        ],
        'rule': ('a case is one seeded history: start in one of the 16 persistent PIN states with no authentication, '
                 'up to 200 (thorough: 400) events drawn with per-run weights from the 9 events plus the fault "session lost" '
                 '(volatile auth reset, persistent pin kept); distinct = distinct (pin, auth, event, monitor state) tuples exercised, '
                 'monitor state = (wrong PINs since restore, CAN pending, last successful password); all of them non-trivial '
                 '(each is a transition of the real btokPwdTransition under a different monitor obligation)'),
        'real': ['btokPwdTransition (src/crypto/btok/btok_pwd.c)'],
        'stub': ['the card session (session loss is injected by the simulator)'],
        'assumptions': [
            'runs start only in the 16 states the property names (any persistent state, no authentication)',
            'pin_activate and an unblocking puk_ok are treated as restoring the retry counter (conservative reading, DESIGN.md C20)',
            'the puk0 -> puk_ok -> pin_deactivate -> pin_activate revive path is an observation, not flagged',
            'seeded search, not enumeration: exhaustive=false',
        ],
        'mandatory_probes': {'any': ['probe.third_wrong_pin', 'probe.terminated_puk0', 'probe.unblocked_by_puk', 'probe.reactivated', 'fault.session_lost']},
    },
}

NA_PURE = 'pure function of its inputs: no schedule, clock, fault, crash point or history for a simulator to own (DESIGN.md §4)'
NOT_APPLICABLE = {
    'C01': 'belt mechanisms vs. the standard: ' + NA_PURE,
    'C02': 'bign soundness/completeness: ' + NA_PURE + '; needs an independent reference implementation, not a simulator',
    'C03': 'bash/brng/botp vs. the standards: sequential pure code; command histories are arguments, not interleavings (DESIGN.md §4)',
    'C05': 'arithmetic layer: ' + NA_PURE,
    'C06': 'EC group law: ' + NA_PURE,
    'C08': 'decoder totality over all byte strings is input enumeration (fuzzing/BMC territory), nothing to schedule or fault',
    'C11': 'buffer placement is an argument of a pure call; nothing for a scheduler or fault injector to decide',
    'C12': 'membership decisions of pure validators (priRMTest draws bases from a clock, but the property quantifies over numbers)',
    'C13': 'belsShare/belsRecover are single-shot pure functions; subset and order are arguments',
    'C14': 'control-flow independence of machine code is invisible to a simulator that observes API effects; needs binary-level analysis',
    'C16': 'sign/verify/DH round trips: ' + NA_PURE,
    'C19': 'equality of differently built binaries on equal inputs has no nondeterminism to control (cross-build digests are used only as a determinism gate)',
}

MANIFEST_TEXT = {
    'C04': {
        'text': ('Seeded search over two-party sessions of the real bake/BAUTH code: both parties run as simulated tasks (library Run drivers or step hosts) that share only '
                 'a simulated channel on which message faults are injected; honest sessions must agree, tampered sessions must never agree (and must fail at a confirming party), '
                 'lost messages must end in an error rather than a hang, and a fault-free session afterwards must succeed; a password-less BPACE adversary offering off-curve points must never be accepted. Evidence, not proof.'),
        'design_ref': 'DESIGN.md §3 C04',
        'note': 'Trusted: the channel model and the per-protocol message flow in sim/protosim/proto_bake.c (transcribed from bake.h/btok.h). Known finding: BSTS Run drivers with |M2| or |M3| = 0 mod 512.',
        'technique': 'deterministic simulation: two party tasks over a simulated lossy/corrupting channel with agreement and tamper oracles',
    },
    'C17': {
        'text': ('Seeded search over token-layer histories: SM command/response dialogues under transport faults with ground-truth counters, CV-certificate chains '
                 'issued and validated under a simulated calendar and storage faults against a predicate assembled from btok.h, and password containers under storage corruption.'),
        'design_ref': 'DESIGN.md §3 C17',
        'note': 'Trusted: the ground-truth predicates in sim/protosim/proto_sm.c and proto_cvc.c.',
        'technique': 'deterministic simulation: terminal/card dialogue, simulated calendar and storage faults with ground-truth oracles',
    },
    'C18': {
        'text': ('Seeded schedule search over fibers parked at every synchronisation point of the real mt.c/rng.c/util.c; ThreadSanitizer (fiber API, '
                 'non-synchronising switches) as the happens-before oracle; linearizability decided by replaying the same operations sequentially '
                 'in lock-acquisition order with the recorded entropy; once/atomic/refcount/lifetime/deadlock oracles; entropy, allocation, mutex-init '
                 'and atexit faults attached to library-level events. Evidence, not proof: schedules are sampled.'),
        'design_ref': 'DESIGN.md §3 C18',
        'note': 'Trusted: ThreadSanitizer 14 fiber support; the cooperative scheduler (sim/kernel/fiber.c) adding no synchronisation of its own (uninstrumented, no_sync switches); hooks H-mt, H-rng-es, H-reset. The race on memWipe\'s own pattern counter (function-static, unsynchronised by design, no generator state) is counted, not reported (DESIGN 12.4).',
        'technique': 'deterministic simulation: seeded scheduler over fibers + TSan happens-before + sequential-replay linearizability',
    },
    'C07': {
        'text': ('Rider check, partial by construction: fault-free simulated calls of ~130 high-level functions, 78 arithmetic-layer and helper descriptors (every function of include/bee2/math with a caller-owned stack, the stack-free ww/zz/codec helpers), 21 streaming bundles and the four bake/BAUTH protocols on the simulated heap with '
                 'exact-size buffers, states, stacks and blobs (H-blob), ASan + memory-related UBSan, library ASSERTs on, in the 64-bit and 32-bit word '
                 'configuration, each call repeated under different seeded heap and C-stack garbage and under the stale image of a previous computation, with identical results required. '
                 'Leg badmem: the refused inputs of C09 (malformed, truncated in a buffer of exactly the shorter size, out of range) executed for memory safety only.'),
        'design_ref': 'DESIGN.md §3 C07',
        'note': 'Decides only the environment half of C07 (where memory comes from, its exact size, its prior content); it is not an operand sweep of every public entry point.',
        'technique': 'deterministic simulation: exact-size simulated heap + seeded garbage / stale-image differential under sanitizers',
    },
    'C09': {
        'text': ('Fault enumeration: for every explored call of ~130 err_t-returning high-level functions each of its N allocations is failed in turn '
                 '(singly and persistently) on the simulated heap; oracle: error code, empty live set, no crash. Bad-argument variants derived from the '
                 'headers\' \\expect lines with the named error class as oracle, and no-release-on-authentication-failure checks for unwrap functions.'),
        'design_ref': 'DESIGN.md §3 C09',
        'note': 'Complete for single allocation faults of the calls explored; calls and argument values themselves are sampled. Descriptor table (sim/faultcall/fc_*.c) is the trusted transcription of the headers.',
        'technique': 'deterministic simulation: per-call allocation-fault enumeration + header-derived bad-argument workload',
    },
    'C15': {
        'text': ('Secret-differential free monitor on the simulated heap: each secret-taking call, and each whole bake/BAUTH session, runs twice with different secrets from an identical '
                 'simulator state; every released block is snapshotted at the instant of release and the two snapshots must agree except where '
                 'equal to public output (single calls) or to the wire transcript, certificates and hellos (sessions). Error exits are reached by allocation-fault injection and error variants.'),
        'design_ref': 'DESIGN.md §3 C15',
        'note': 'Non-interference oracle needs no knowledge of state layouts; it cannot see secrets left on the C stack or in registers.',
        'technique': 'deterministic simulation: free-time snapshots + two-secret differential with fault-reached exits',
    },
    'C10': {
        'text': ('Seeded search over stream histories: the simulator plays the data source and the hosting process of 21 Start/Step/Get bundles '
                 '(belt ECB/CBC/CFB/CTR/BDE/SDE/MAC/Hash/HMAC/DWP/CHE/KRP/WBL-KWP/FMT, bash hash and automaton, brng CTR/HMAC, botp HOTP/TOTP/OCRA), fragments the data, '
                 'asks for intermediate values and relocates the state between any two calls; every output and probe is compared with the one-shot function. '
                 'Runs under ASan with exact-size states. Evidence, not proof.'),
        'design_ref': 'DESIGN.md §3 C10',
        'note': 'Trusted: the one-shot functions of the same build as reference (their correctness is C01/C03, not claimed here); the per-bundle call grammar transcribed from the headers.',
        'technique': 'deterministic simulation: seeded fragmentation/probe/state-migration histories vs one-shot reference',
    },
    'C20': {
        'text': ('Seeded search over event histories of the real btokPwdTransition, including the fault "session lost" '
                 '(volatile authentication reset, persistent PIN state kept), checked step by step by six temporal monitors '
                 'transcribed from the property text. Evidence, not proof: histories are sampled; transition-triple coverage '
                 'is measured and reported.'),
        'design_ref': 'DESIGN.md §3 C20',
        'note': 'Trusted: the monitors (sim/pwdsim/pwdsim.c) as a faithful transcription of the property; conservative readings listed in the evidence assumptions.',
        'technique': 'deterministic simulation: seeded event histories with session-loss faults against temporal monitors',
    },
}
