"""Check table: which engines/configs/run counts decide which property."""

ENGINES = {
    'pwdsim': {'sources': ['pwdsim.c']},
    'streamsim': {'sources': ['streamsim.c']},
}

REAL_ALL = ['all of /repo/src compiled from the current working tree with -DBEE2_VERIF']

CHECKS = {
    'C10': {
        'level': 'exploration',
        'legs': [
            {'engine': 'streamsim', 'config': 'asan', 'runs': [300000, 6000000]},
            {'engine': 'streamsim', 'config': 'asan32', 'runs': [100000, 2000000]},
            {'engine': 'streamsim', 'config': 'plain', 'runs': [600000, 60000000]},
        ],
        'rule': ('a case is one simulated stream for one of 18 Start/Step/Get bundles: message of 0..~4 internal blocks, cut into 1..7 '
                 'fragments by the simulated source (boundaries biased to block-1/block/block+1/0, empty fragments where the header allows), '
                 'with mid-stream Get/Verify probes and state migrations (copy to a fresh exact-size block, old block scribbled and released) '
                 'interleaved; distinct = distinct (bundle, sequence of (offset mod block, length mod block, blocks), probe kinds, migrations) signatures; '
                 'a run with a single whole-message delivery and no event is still counted (it is the degenerate split)'),
        'real': REAL_ALL,
        'stub': ['the data source (fragmentation), the caller process that checkpoints/relocates states'],
        'assumptions': [
            'oracle = the library\'s own one-shot high-level function over the concatenation (same build)',
            'splits restricted to those each header permits (ECB/CBC fragments >= 16 with ragged tail last, BDE whole blocks, SDE whole sectors)',
            'migration applied only to bundles whose header declares the state copyable (belt, brng, botp); brngHMAC iv buffer kept alive only when iv_len > 64 as the header requires',
            'brngCTR driven with zero-filled buffers',
            'a 10^-digit OTP collision is computed, not assumed away',
        ],
        'mandatory_probes': {'any': ['probe.exact_fill', 'probe.one_short', 'probe.one_over', 'probe.get_on_partial_block', 'fault.state_migrated', 'fault.empty_fragment']},
    },
    'C20': {
        'level': 'exploration',
        'legs': [
            {'engine': 'pwdsim', 'config': 'asan', 'runs': [40000, 400000]},
            {'engine': 'pwdsim', 'config': 'plain', 'runs': [400000, 40000000]},
        ],
        'rule': ('a case is one seeded history: start in one of the 16 persistent PIN states with no authentication, '
                 'up to 200 (thorough: 400) events drawn with per-run weights from the 9 events plus the fault "session lost" '
                 '(volatile auth reset, persistent pin kept); distinct = distinct (pin, auth, event, monitor state) tuples exercised, '
                 'monitor state = (wrong PINs since restore, CAN pending, last successful password); all of them non-trivial '
                 '(each is a transition of the real btokPwdTransition under a different monitor obligation)'),
        'real': ['btokPwdTransition (src/crypto/btok/btok_pwd.c)'],
        'stub': ['the card session (session loss is injected by the simulator)'],
        'assumptions': [
            'runs start only in the 16 states the property names (any persistent state, no authentication)',
            'pin_activate and an unblocking puk_ok are treated as restoring the retry counter (conservative reading, DESIGN.md C20)',
            'the puk0 -> puk_ok -> pin_deactivate -> pin_activate revive path is an observation, not flagged',
            'seeded search, not enumeration: exhaustive=false',
        ],
        'mandatory_probes': {'any': ['probe.third_wrong_pin', 'probe.terminated_puk0', 'probe.unblocked_by_puk', 'probe.reactivated', 'fault.session_lost']},
    },
}

NA_PURE = 'pure function of its inputs: no schedule, clock, fault, crash point or history for a simulator to own (DESIGN.md §4)'
NOT_APPLICABLE = {
    'C01': 'belt mechanisms vs. the standard: ' + NA_PURE,
    'C02': 'bign soundness/completeness: ' + NA_PURE + '; needs an independent reference implementation, not a simulator',
    'C03': 'bash/brng/botp vs. the standards: sequential pure code; command histories are arguments, not interleavings (DESIGN.md §4)',
    'C04': 'not yet built in this tree (protosim engine pending)',
    'C05': 'arithmetic layer: ' + NA_PURE,
    'C06': 'EC group law: ' + NA_PURE,
    'C07': 'not yet built in this tree (rider on faultcall/streamsim/protosim baselines pending)',
    'C08': 'decoder totality over all byte strings is input enumeration (fuzzing/BMC territory), nothing to schedule or fault',
    'C09': 'not yet built in this tree (faultcall engine pending)',
    'C11': 'buffer placement is an argument of a pure call; nothing for a scheduler or fault injector to decide',
    'C12': 'membership decisions of pure validators (priRMTest draws bases from a clock, but the property quantifies over numbers)',
    'C13': 'belsShare/belsRecover are single-shot pure functions; subset and order are arguments',
    'C14': 'control-flow independence of machine code is invisible to a simulator that observes API effects; needs binary-level analysis',
    'C15': 'not yet built in this tree (faultcall free monitor pending)',
    'C16': 'sign/verify/DH round trips: ' + NA_PURE,
    'C17': 'not yet built in this tree (protosim engine pending)',
    'C18': 'not yet built in this tree (mtsim engine pending)',
    'C19': 'equality of differently built binaries on equal inputs has no nondeterminism to control (cross-build digests are used only as a determinism gate)',
}

MANIFEST_TEXT = {
    'C10': {
        'text': ('Seeded search over stream histories: the simulator plays the data source and the hosting process of 18 Start/Step/Get bundles '
                 '(belt ECB/CBC/CFB/CTR/BDE/SDE/MAC/Hash/HMAC/DWP/CHE/KRP, bash hash and automaton, brng CTR/HMAC, botp HOTP/TOTP), fragments the data, '
                 'asks for intermediate values and relocates the state between any two calls; every output and probe is compared with the one-shot function. '
                 'Runs under ASan with exact-size states. Evidence, not proof.'),
        'design_ref': 'DESIGN.md §3 C10',
        'note': 'Trusted: the one-shot functions of the same build as reference (their correctness is C01/C03, not claimed here); the per-bundle call grammar transcribed from the headers.',
        'technique': 'deterministic simulation: seeded fragmentation/probe/state-migration histories vs one-shot reference',
    },
    'C20': {
        'text': ('Seeded search over event histories of the real btokPwdTransition, including the fault "session lost" '
                 '(volatile authentication reset, persistent PIN state kept), checked step by step by six temporal monitors '
                 'transcribed from the property text. Evidence, not proof: histories are sampled; transition-triple coverage '
                 'is measured and reported.'),
        'design_ref': 'DESIGN.md §3 C20',
        'note': 'Trusted: the monitors (sim/pwdsim/pwdsim.c) as a faithful transcription of the property; conservative readings listed in the evidence assumptions.',
        'technique': 'deterministic simulation: seeded event histories with session-loss faults against temporal monitors',
    },
}
