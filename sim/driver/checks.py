"""Check table: which engines/configs/run counts decide which property."""

ENGINES = {
    'pwdsim': {'sources': ['pwdsim.c']},
}

REAL_ALL = ['all of /repo/src compiled from the current working tree with -DBEE2_VERIF']

CHECKS = {
    'C20': {
        'level': 'exploration',
        'legs': [
            {'engine': 'pwdsim', 'config': 'asan', 'runs': [40000, 400000]},
            {'engine': 'pwdsim', 'config': 'plain', 'runs': [400000, 40000000]},
        ],
        'rule': ('a case is one seeded history: start in one of the 16 persistent PIN states with no authentication, '
                 'up to 200 (thorough: 400) events drawn with per-run weights from the 9 events plus the fault "session lost" '
                 '(volatile auth reset, persistent pin kept); distinct = distinct (pin, auth, event, monitor state) tuples exercised, '
                 'monitor state = (wrong PINs since restore, CAN pending, last successful password); all of them non-trivial '
                 '(each is a transition of the real btokPwdTransition under a different monitor obligation)'),
        'real': ['btokPwdTransition (src/crypto/btok/btok_pwd.c)'],
        'stub': ['the card session (session loss is injected by the simulator)'],
        'assumptions': [
            'runs start only in the 16 states the property names (any persistent state, no authentication)',
            'pin_activate and an unblocking puk_ok are treated as restoring the retry counter (conservative reading, DESIGN.md C20)',
            'the puk0 -> puk_ok -> pin_deactivate -> pin_activate revive path is an observation, not flagged',
            'seeded search, not enumeration: exhaustive=false',
        ],
        'mandatory_probes': {'any': ['probe.third_wrong_pin', 'probe.terminated_puk0', 'probe.unblocked_by_puk', 'probe.reactivated', 'fault.session_lost']},
    },
}

NA_PURE = 'pure function of its inputs: no schedule, clock, fault, crash point or history for a simulator to own (DESIGN.md §4)'
NOT_APPLICABLE = {
    'C01': 'belt mechanisms vs. the standard: ' + NA_PURE,
    'C02': 'bign soundness/completeness: ' + NA_PURE + '; needs an independent reference implementation, not a simulator',
    'C03': 'bash/brng/botp vs. the standards: sequential pure code; command histories are arguments, not interleavings (DESIGN.md §4)',
    'C04': 'not yet built in this tree (protosim engine pending)',
    'C05': 'arithmetic layer: ' + NA_PURE,
    'C06': 'EC group law: ' + NA_PURE,
    'C07': 'not yet built in this tree (rider on faultcall/streamsim/protosim baselines pending)',
    'C08': 'decoder totality over all byte strings is input enumeration (fuzzing/BMC territory), nothing to schedule or fault',
    'C09': 'not yet built in this tree (faultcall engine pending)',
    'C10': 'not yet built in this tree (streamsim engine pending)',
    'C11': 'buffer placement is an argument of a pure call; nothing for a scheduler or fault injector to decide',
    'C12': 'membership decisions of pure validators (priRMTest draws bases from a clock, but the property quantifies over numbers)',
    'C13': 'belsShare/belsRecover are single-shot pure functions; subset and order are arguments',
    'C14': 'control-flow independence of machine code is invisible to a simulator that observes API effects; needs binary-level analysis',
    'C15': 'not yet built in this tree (faultcall free monitor pending)',
    'C16': 'sign/verify/DH round trips: ' + NA_PURE,
    'C17': 'not yet built in this tree (protosim engine pending)',
    'C18': 'not yet built in this tree (mtsim engine pending)',
    'C19': 'equality of differently built binaries on equal inputs has no nondeterminism to control (cross-build digests are used only as a determinism gate)',
}

MANIFEST_TEXT = {
    'C20': {
        'text': ('Seeded search over event histories of the real btokPwdTransition, including the fault "session lost" '
                 '(volatile authentication reset, persistent PIN state kept), checked step by step by six temporal monitors '
                 'transcribed from the property text. Evidence, not proof: histories are sampled; transition-triple coverage '
                 'is measured and reported.'),
        'design_ref': 'DESIGN.md §3 C20',
        'note': 'Trusted: the monitors (sim/pwdsim/pwdsim.c) as a faithful transcription of the property; conservative readings listed in the evidence assumptions.',
        'technique': 'deterministic simulation: seeded event histories with session-loss faults against temporal monitors',
    },
}
