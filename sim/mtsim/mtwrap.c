/* Link-time wrappers for the thread-related libc entry points used by mt.c and
   util.c (DESIGN.md §1).  Compiled WITHOUT instrumentation. */
#define _GNU_SOURCE
#include "simk.h"
#include "mtsim.h"
#include <pthread.h>
#include <errno.h>
#include <string.h>

int __real_pthread_mutex_init(pthread_mutex_t*, const pthread_mutexattr_t*);
int __real_pthread_mutex_lock(pthread_mutex_t*);
int __real_pthread_mutex_unlock(pthread_mutex_t*);
int __real_pthread_mutex_destroy(pthread_mutex_t*);
int __real_atexit(void (*)(void));

#define MAXM 8
static struct { pthread_mutex_t* m; int owner; int alive; } mtx[MAXM];
static int nm;
int mt_mutex_inits, mt_mutex_init_fail_at, mt_atexit_fail;
int mt_lock_errors;
void (*mt_exit_handlers[8])(void);
int mt_nexit;
void (*mt_on_acquire)(int mutex_index, int task);
int mt_contended;
int mt_sim_on;

void mt_wrap_reset(void)
{
	nm = 0, mt_mutex_inits = 0, mt_mutex_init_fail_at = 0, mt_atexit_fail = 0;
	mt_lock_errors = 0, mt_nexit = 0, mt_contended = 0;
	memset(mtx, 0, sizeof(mtx));
}

static int find(pthread_mutex_t* m)
{
	int i;
	for (i = 0; i < nm; ++i)
		if (mtx[i].m == m && mtx[i].alive)
			return i;
	return -1;
}

int __wrap_pthread_mutex_init(pthread_mutex_t* m, const pthread_mutexattr_t* a)
{
	if (!mt_sim_on)
		return __real_pthread_mutex_init(m, a);
	++mt_mutex_inits;
	if (mt_mutex_init_fail_at && mt_mutex_inits == mt_mutex_init_fail_at)
	{
		sk_count("fault.mutex_init_failed", 1);
		return ENOMEM;
	}
	if (nm < MAXM)
		mtx[nm].m = m, mtx[nm].owner = -1, mtx[nm].alive = 1, ++nm;
	return __real_pthread_mutex_init(m, a);
}

int __wrap_pthread_mutex_lock(pthread_mutex_t* m)
{
	int i, self;
	if (!mt_sim_on)
		return __real_pthread_mutex_lock(m);
	i = find(m);
	self = sk_self();
	if (i < 0)
	{
		++mt_lock_errors; /* lock of a mutex that was never created / already destroyed */
		return EINVAL;
	}
	if (self >= 0)
	{
		sk_yield(10, m);
		if (mtx[i].owner == self)
		{
			++mt_lock_errors; /* self-deadlock on a non-recursive mutex */
			sk_block_on(&mt_lock_errors);
		}
		while (mtx[i].owner != -1)
		{
			++mt_contended;
			sk_block_on(m);
		}
	}
	else if (mtx[i].owner != -1)
	{
		++mt_lock_errors; /* the main context (exit handlers, replay) would block forever */
		return EDEADLK;
	}
	mtx[i].owner = self >= 0 ? self : 99;
	if (mt_on_acquire)
		mt_on_acquire(i, self);
	return __real_pthread_mutex_lock(m);
}

int __wrap_pthread_mutex_unlock(pthread_mutex_t* m)
{
	int i, self, r;
	if (!mt_sim_on)
		return __real_pthread_mutex_unlock(m);
	i = find(m);
	self = sk_self();
	if (i < 0 || mtx[i].owner != (self >= 0 ? self : 99))
	{
		++mt_lock_errors; /* unlock by a non-owner */
		return EPERM;
	}
	r = __real_pthread_mutex_unlock(m);
	mtx[i].owner = -1;
	sk_wake(m);
	if (self >= 0)
		sk_yield(11, m);
	return r;
}

int __wrap_pthread_mutex_destroy(pthread_mutex_t* m)
{
	int i;
	if (!mt_sim_on)
		return __real_pthread_mutex_destroy(m);
	i = find(m);
	if (i < 0 || mtx[i].owner != -1)
		++mt_lock_errors; /* destroying a locked or unknown mutex */
	else
		mtx[i].alive = 0;
	return __real_pthread_mutex_destroy(m);
}

int __wrap_atexit(void (*fn)(void))
{
	if (!mt_sim_on)
		return __real_atexit(fn);
	if (mt_atexit_fail)
	{
		sk_count("fault.atexit_failed", 1);
		return -1;
	}
	if (mt_nexit < 8)
		mt_exit_handlers[mt_nexit++] = fn;
	return 0;
}

int mt_mutex_owner(int index) { return index < nm ? mtx[index].owner : -2; }
int mt_mutex_count(void) { return nm; }
