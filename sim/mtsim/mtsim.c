/* C18: shared RNG, once and atomics under seeded interleavings (DESIGN.md C18).
   Real code: mt.c, rng.c, util.c, blob.c, mem.c, brngCTR, beltHash.
   Stubs: entropy sources, mutex blocking, atexit. */
#include "simk.h"
#include "mtsim.h"
#include <string.h>
#include <stdio.h>
#include <stdlib.h>
#include "bee2/core/mt.h"
#include "bee2/core/rng.h"
#include "bee2/core/err.h"
#include "bee2/core/mem.h"
#include "bee2/core/util.h"

extern void (*mtVerifYield)(int kind, const void* obj);
extern err_t (*rngVerifESRead)(size_t* read, void* buf, size_t count, const char* source);
void rngVerifReset(void);
void utilVerifReset(void);

/* ------------------------------------------------------- TSan report hook */
static volatile int tsan_reports, wipe_ctr_races;
static char tsan_desc[256];
#ifdef SK_TSAN
int __tsan_get_report_data(void* report, const char** description, int* count,
	int* stack_count, int* mop_count, int* loc_count, int* mutex_count,
	int* thread_count, int* unique_tid_count, void** sleep_trace, unsigned long trace_size);
int __tsan_get_report_mop(void* report, unsigned long idx, int* tid, void** addr,
	int* size, int* write, int* atomic, void** trace, unsigned long trace_size);
void __sanitizer_symbolize_pc(void* pc, const char* fmt, char* out_buf, unsigned long out_buf_size);
int __tsan_get_report_loc(void* report, unsigned long idx, const char** type, void** addr,
	unsigned long* start, unsigned long* size, int* tid, int* fd, int* suppressable,
	void** trace, unsigned long trace_size);
static void* cur_report;

/* Both accesses are memWipe's own and the location is a global: the only global memWipe
   touches is its function-static pattern counter.  That counter is unsynchronised by design
   in the unchanged library (any two threads that wipe concurrently race on it, whatever they
   are doing); it carries no generator state, no reference count and no once-flag, so it is not
   one of the races C18 speaks about.  Counted, not reported (DESIGN 12.4, 12.8). */
__attribute__((no_sanitize("thread"))) static int is_wipe_counter_race(void* rep, int mc, int lc)
{
	int i;
	const char* type = "";
	void* addr = 0;
	unsigned long start = 0, size = 0;
	int tid, fd, sup;
	void* tr[1];
	if (mc < 2 || lc < 1)
		return 0;
	for (i = 0; i < 2; ++i)
	{
		int t, sz, wr, at;
		void* a;
		void* fr[4];
		char nm[64];
		memset(fr, 0, sizeof(fr));
		__tsan_get_report_mop(rep, (unsigned long)i, &t, &a, &sz, &wr, &at, fr, 4);
		nm[0] = 0;
		if (fr[0])
			__sanitizer_symbolize_pc(fr[0], "%f", nm, sizeof(nm));
		if (strcmp(nm, "memWipe") || sz != 1)
			return 0;
	}
	tr[0] = 0;
	__tsan_get_report_loc(rep, 0, &type, &addr, &start, &size, &tid, &fd, &sup, tr, 1);
	return type && !strcmp(type, "global"); /* (the interface reports no size for globals) */
}

__attribute__((no_sanitize("thread"))) void __tsan_on_report(void* rep)
{
	const char* d = "?";
	int cnt, sc, mc = 0, lc = 0, muc, tc, ut, i;
	void* sl[1];
	char f[2][64];
	__tsan_get_report_data(rep, &d, &cnt, &sc, &mc, &lc, &muc, &tc, &ut, sl, 1);
	if (is_wipe_counter_race(rep, mc, lc))
	{
		++wipe_ctr_races;
		return;
	}
	++tsan_reports;
	if (tsan_reports > 1)
		return;
	cur_report = rep;
	f[0][0] = f[1][0] = 0;
	for (i = 0; i < mc && i < 2; ++i)
	{
		int tid, size, wr, at;
		void* addr;
		void* tr[16];
		memset(tr, 0, sizeof(tr));
		__tsan_get_report_mop(rep, (unsigned long)i, &tid, &addr, &size, &wr, &at, tr, 16);
		/* innermost frame of the access that lies in the library, by name */
		{
			int k;
			for (k = 0; k < 16 && tr[k]; ++k)
			{
				char nm[64];
				nm[0] = 0;
				__sanitizer_symbolize_pc(tr[k], "%f", nm, sizeof(nm));
				if (nm[0] && strncmp(nm, "__", 2) && strncmp(nm, "mem", 3))
				{
					snprintf(f[i], sizeof(f[i]), "%s%s", nm, wr ? (at ? "[aw]" : "[w]") : (at ? "[ar]" : "[r]"));
					break;
				}
			}
		}
	}
	if (strcmp(f[0], f[1]) > 0)
	{
		char t[64];
		memcpy(t, f[0], 64), memcpy(f[0], f[1], 64), memcpy(f[1], t, 64);
	}
	snprintf(tsan_desc, sizeof(tsan_desc), "%s:%s/%s", d, f[0], f[1]);
}
#endif

/* ---------------------------------------------------------------- plan */
enum { O_CREATE, O_CREATE_SRC, O_STEPR, O_STEPR2, O_REKEY, O_ISVALID, O_CLOSE, O_N, O_ONEXIT = O_N };
static const char* ON[] = { "Create", "Create(src)", "StepR", "StepR2", "Rekey", "IsValid", "Close", "utilOnExit" };
static int variant_exit;
static size_t dtor_runs, dtor_regs;
static void harness_dtor(void) { ++dtor_runs; }
enum { ES_OK, ES_MISSING, ES_SHORT, ES_ERROR };
static const char* ESN[] = { "ok", "missing", "short", "error" };
static const char* SRC[] = { "trng", "trng2", "sys", "sys2", "timer" };
#define MAXT 16
#define MAXOPS 12
#define MAXLEN 100

typedef struct {
	unsigned char kind, len, executed, nolock;
	err_t rc;
	int bret;
	unsigned lockseq;         /* position in the order of _mtx acquisitions (0 = none) */
	unsigned doneseq;
	octet out[MAXLEN];
} op_t;

typedef struct { op_t ops[MAXOPS + 4]; unsigned nops; int refs; int id; } taskplan_t;

static taskplan_t T[MAXT];
static unsigned NT;
static int es_mode[5], src_mode; /* src_mode: extra source of Create(src) */
static int fail_state_alloc, fail_list_alloc; /* n-th (1-based) or 0 */
static int close_all;
static sk_rng ent_rng;
static sk_result* OUT;
static const sk_mask* MASK;
static size_t STATE_SZ;

/* entropy log for the sequential replay */
typedef struct { unsigned char src, ok; unsigned short count, read; octet data[MAXLEN]; } eslog_t;
static eslog_t eslog[4096];
static unsigned neslog, esreplay_pos;
static int replaying;
static unsigned lockseq_ctr, doneseq_ctr;
static op_t* cur_op[MAXT + 1];
static int state_allocs, list_allocs;
static int global_refs;
static int starved_creates, ok_creates, init_victim;

/* ------------------------------------------------------------ seam hooks */
__attribute__((no_sanitize("thread"))) static void yield_hook(int kind, const void* obj)
{
	if (kind == 3)
		sk_count("probe.atomic_cas_yield", 0);
	sk_yield(kind, obj);
}

__attribute__((no_sanitize("thread"))) static err_t serve_entropy(size_t* read, void* buf, size_t count, int si, int mode)
{
	eslog_t* e;
	if (replaying)
	{
		if (esreplay_pos >= neslog)
		{
			*read = 0;
			return ERR_FILE_NOT_FOUND;
		}
		e = &eslog[esreplay_pos++];
		if (e->src != si || e->count != (count > MAXLEN ? MAXLEN : count))
		{
			/* the sequential library asked for entropy in a different order */
			sk_violate(OUT, "linearizability:entropy_request_order",
				"sequential replay asked source %d for %u octets where the concurrent run asked source %d for %u",
				si, (unsigned)count, e->src, e->count);
			*read = 0;
			return ERR_FILE_NOT_FOUND;
		}
		memcpy(buf, e->data, e->read);
		*read = e->read;
		return e->ok ? ERR_OK : (si < 5 && es_mode[si] == ES_ERROR ? ERR_BAD_ENTROPY : ERR_FILE_NOT_FOUND);
	}
	if (sk_self() >= 0)
		sk_yield(20, 0); /* a source may sleep while _mtx is held */
	if (neslog >= 4096)
	{
		*read = 0;
		return ERR_FILE_NOT_FOUND;
	}
	e = &eslog[neslog++];
	e->src = (unsigned char)si, e->count = (unsigned short)(count > MAXLEN ? MAXLEN : count);
	e->read = 0, e->ok = 0;
	switch (mode)
	{
	case ES_MISSING:
		sk_count("fault.entropy_source_missing", 1);
		*read = 0;
		return ERR_FILE_NOT_FOUND;
	case ES_ERROR:
		sk_count("fault.entropy_source_error", 1);
		*read = 0;
		return ERR_BAD_ENTROPY;
	case ES_SHORT:
		sk_count("fault.entropy_short_read", 1);
		e->read = (unsigned short)(e->count ? sk_below(&ent_rng, e->count) : 0);
		break;
	default:
		e->read = e->count;
		break;
	}
	sk_bytes(&ent_rng, e->data, e->read);
	memcpy(buf, e->data, e->read);
	*read = e->read;
	e->ok = 1;
	return ERR_OK;
}

__attribute__((no_sanitize("thread"))) static err_t es_hook(size_t* read, void* buf, size_t count, const char* source)
{
	int i;
	for (i = 0; i < 5; ++i)
		if (!strcmp(source, SRC[i]))
			return serve_entropy(read, buf, count, i, es_mode[i]);
	*read = 0;
	return ERR_FILE_NOT_FOUND;
}

__attribute__((no_sanitize("thread"))) static err_t extra_source(size_t* read, void* buf, size_t count, void* file)
{
	(void)file;
	return serve_entropy(read, buf, count, 5, src_mode);
}

__attribute__((no_sanitize("thread"))) static void on_acquire(int mi, int task)
{
	/* mutex #0 of a run is rng.c's _mtx (created first in rngInit) */
	if (mi == 0 && !replaying)
	{
		int t = task >= 0 ? task : MAXT;
		if (cur_op[t] && cur_op[t]->lockseq == 0)
			cur_op[t]->lockseq = ++lockseq_ctr;
	}
}

/* allocation faults are attached to library-level events, recognised by size */
__attribute__((no_sanitize("thread"))) static void alloc_yield(void)
{
	if (sk_self() >= 0)
		sk_yield(30, 0);
}

/* --------------------------------------------------------------- op exec */
__attribute__((no_sanitize("thread"))) static void exec_op(taskplan_t* tp, op_t* op)
{
	int slot = sk_self() >= 0 ? sk_self() : MAXT;
	cur_op[slot] = op;
	op->executed = 1;
	memset(op->out, 0xC3, sizeof(op->out));
	switch (op->kind)
	{
	case O_CREATE:
	case O_CREATE_SRC:
		op->rc = rngCreate(op->kind == O_CREATE_SRC ? extra_source : 0, 0);
		if (op->rc == ERR_OK)
			++tp->refs;
		break;
	case O_STEPR:
		rngStepR(op->out, op->len, 0);
		break;
	case O_STEPR2:
		rngStepR2(op->out, op->len, 0);
		break;
	case O_REKEY:
		rngRekey();
		break;
	case O_ISVALID:
		op->bret = rngIsValid();
		break;
	case O_CLOSE:
		rngClose();
		--tp->refs;
		break;
	case O_ONEXIT:
		op->bret = utilOnExit(harness_dtor);
		if (op->bret)
			++dtor_regs;
		break;
	}
	op->doneseq = ++doneseq_ctr;
	op->nolock = op->lockseq == 0;
	cur_op[slot] = 0;
}

static int op_allowed(const taskplan_t* tp, const op_t* op)
{
	/* caller contract: use, re-key and close only while holding a reference */
	if (op->kind == O_STEPR || op->kind == O_STEPR2 || op->kind == O_REKEY || op->kind == O_CLOSE)
		return tp->refs > 0;
	return 1;
}

__attribute__((no_sanitize("thread"))) static void task_main(void* arg)
{
	taskplan_t* tp = (taskplan_t*)arg;
	unsigned i;
	for (i = 0; i < tp->nops; ++i)
	{
		if (!sk_keep(MASK, (unsigned)tp->id * MAXOPS + i))
			continue;
		if (!op_allowed(tp, &tp->ops[i]))
			continue;
		exec_op(tp, &tp->ops[i]);
		sk_yield(40, 0);
	}
	if (close_all)
		while (tp->refs > 0 && tp->nops < MAXOPS + 4)
		{
			op_t* op = &tp->ops[tp->nops++];
			memset(op, 0, sizeof(*op));
			op->kind = O_CLOSE;
			exec_op(tp, op);
		}
}

/* ------------------------------------------------------------ generation */
static void gen_plan(sk_rng* r)
{
	unsigned t, i, w[O_N], ws = 0;
	NT = 2 + sk_below(r, sk_options.tier ? 15 : 7);
	if (NT > MAXT)
		NT = MAXT;
	for (i = 0; i < O_N; ++i)
		w[i] = 1 + sk_below(r, 6), ws += w[i];
	for (t = 0; t < NT; ++t)
	{
		taskplan_t* tp = &T[t];
		memset(tp, 0, sizeof(*tp));
		tp->id = (int)t;
		tp->nops = 1 + sk_below(r, 10);
		for (i = 0; i < tp->nops; ++i)
		{
			unsigned x = sk_below(r, ws), k = 0;
			while (x >= w[k])
				x -= w[k++];
			if (i == 0 && sk_chance(r, 3, 4))
				k = sk_chance(r, 1, 3) ? O_CREATE_SRC : O_CREATE;
			if (variant_exit && sk_chance(r, 1, 3))
				k = O_ONEXIT;
			tp->ops[i].kind = (unsigned char)k;
			tp->ops[i].len = (unsigned char)sk_below(r, MAXLEN + 1);
		}
	}
	/* faults (swarm: most runs have few) */
	for (i = 0; i < 5; ++i)
		es_mode[i] = sk_chance(r, 1, 4) ? (int)(1 + sk_below(r, 3)) : ES_OK;
	if (sk_chance(r, 1, 12))
		for (i = 0; i < 5; ++i)
			es_mode[i] = ES_MISSING; /* starved: only the extra source can help */
	src_mode = sk_chance(r, 1, 5) ? (int)(1 + sk_below(r, 3)) : ES_OK;
	fail_state_alloc = sk_chance(r, 1, 8) ? (int)(1 + sk_below(r, 3)) : 0;
	fail_list_alloc = sk_chance(r, 1, 12) ? (int)(1 + sk_below(r, 2)) : 0;
	mt_mutex_init_fail_at = sk_chance(r, 1, 16) ? (int)(1 + sk_below(r, 2)) : 0;
	mt_atexit_fail = sk_chance(r, 1, 20);
	close_all = sk_chance(r, 3, 4);
}

static void text_plan(void)
{
	unsigned t, i;
	char line[400];
	sk_text(OUT, "faults: entropy trng=%s trng2=%s sys=%s sys2=%s timer=%s extra=%s; fail state-alloc #%d, list-alloc #%d, mutex-init #%d, atexit %s; close_all=%d",
		ESN[es_mode[0]], ESN[es_mode[1]], ESN[es_mode[2]], ESN[es_mode[3]], ESN[es_mode[4]], ESN[src_mode],
		fail_state_alloc, fail_list_alloc, mt_mutex_init_fail_at, mt_atexit_fail ? "fails" : "ok", close_all);
	for (t = 0; t < NT; ++t)
	{
		int n = snprintf(line, sizeof(line), "task %u:", t);
		for (i = 0; i < T[t].nops && n < 360; ++i)
			if (sk_keep(MASK, t * MAXOPS + i))
				n += snprintf(line + n, sizeof(line) - (size_t)n, " %s", ON[T[t].ops[i].kind]);
		sk_text(OUT, "%s", line);
	}
}

/* fault elements occupy mask indices after the ops */
#define F_BASE (MAXT * MAXOPS)
static void apply_fault_mask(void)
{
	unsigned i;
	for (i = 0; i < 5; ++i)
		if (!sk_keep(MASK, F_BASE + i))
			es_mode[i] = ES_OK;
	if (!sk_keep(MASK, F_BASE + 5)) src_mode = ES_OK;
	if (!sk_keep(MASK, F_BASE + 6)) fail_state_alloc = 0;
	if (!sk_keep(MASK, F_BASE + 7)) fail_list_alloc = 0;
	if (!sk_keep(MASK, F_BASE + 8)) mt_mutex_init_fail_at = 0;
	if (!sk_keep(MASK, F_BASE + 9)) mt_atexit_fail = 0;
}

/* allocation fault by event kind */
__attribute__((no_sanitize("thread"))) static void alloc_hook(void)
{
	alloc_yield();
}

/* ----------------------------------------------------------- the rng run */
static void reset_world(uint64_t fill)
{
	rngVerifReset();
	utilVerifReset();
	mt_wrap_reset();
	sk_heap_reset(fill);
	state_allocs = list_allocs = 0;
	lockseq_ctr = doneseq_ctr = 0;
	memset(cur_op, 0, sizeof(cur_op));
}

/* event-keyed allocation faults: installed as a malloc filter in heap.c */
__attribute__((no_sanitize("thread"))) static int heap_filter(size_t n, int op)
{
	(void)op;
	if (n == STATE_SZ)
	{
		++state_allocs;
		if (fail_state_alloc && state_allocs == fail_state_alloc)
		{
			sk_count("fault.state_alloc_failed", 1);
			return 1;
		}
	}
	else
	{
		++list_allocs;
		if (fail_list_alloc && list_allocs == fail_list_alloc)
		{
			sk_count("fault.exit_list_alloc_failed", 1);
			return 1;
		}
	}
	return 0;
}

static int cmp_lockseq(const void* a, const void* b)
{
	const op_t* x = *(op_t* const*)a;
	const op_t* y = *(op_t* const*)b;
	unsigned kx = x->nolock ? 0 : x->lockseq, ky = y->nolock ? 0 : y->lockseq;
	if (kx != ky)
		return kx < ky ? -1 : 1;
	return x->doneseq < y->doneseq ? -1 : x->doneseq > y->doneseq;
}

static void run_rng(uint64_t seed)
{
	sk_rng r;
	sk_sched_cfg cfg;
	unsigned t, i, nexec = 0;
	int rc;
	static op_t* order[MAXT * (MAXOPS + 4)];
	static op_t saved[MAXT * (MAXOPS + 4)];
	uint64_t fill;
	sk_rng_seed(&r, seed);
	gen_plan(&r);
	apply_fault_mask();
	OUT->nops = F_BASE + 10;
	text_plan();
	fill = sk_u64(&r);
	sk_rng_seed(&ent_rng, sk_u64(&r));
	cfg.strategy = (int)sk_below(&r, 4);
	cfg.pct_depth = (int)sk_below(&r, 4);
	cfg.max_steps = 20000;
	replaying = 0, neslog = 0;
	reset_world(fill);
	sk_wipe_normalise(); /* memWipe's hidden counter leaks into the generator's additional input */
	tsan_reports = 0, wipe_ctr_races = 0;
	starved_creates = ok_creates = init_victim = 0;
	dtor_runs = dtor_regs = 0;
	sk_sched_init(sk_u64(&r), &cfg);
	sk_heap_arm();
	for (t = 0; t < NT; ++t)
		sk_spawn(task_main, &T[t]);
	rc = sk_sched_run();
	sk_heap_disarm();
	sk_count("steps", sk_steps());
	sk_dg_u64(&OUT->digest, sk_sched_sig());
	OUT->sig = sk_sched_sig();
	OUT->nontrivial = 1;
	sk_text(OUT, "schedule: strategy=%d steps=%u result=%d", cfg.strategy, sk_steps(), rc);
	if (mt_contended)
		sk_count("probe.mutex_contended", 1);
	if (rc == 1)
	{
		sk_violate(OUT, "deadlock", "tasks left unfinished with none runnable (mutex #0 owner=%d, lock errors=%d)",
			mt_mutex_owner(0), mt_lock_errors);
		sk_sched_cleanup();
		sk_restart_requested = 1; /* abandoned fibers: continue in a fresh process */
		return;
	}
	if (rc == 2)
	{
		sk_violate(OUT, "livelock_candidate", "step cap reached with runnable tasks");
		sk_sched_cleanup();
		sk_restart_requested = 1;
		return;
	}
	sk_sched_cleanup();
	if (mt_lock_errors)
	{
		sk_violate(OUT, "mutex_misuse", "%d invalid mutex operations (unlock by non-owner, lock of a destroyed mutex, destroy while locked)", mt_lock_errors);
		return;
	}
	/* collect executed ops */
	global_refs = 0;
	for (t = 0; t < NT; ++t)
	{
		for (i = 0; i < T[t].nops; ++i)
			if (T[t].ops[i].executed)
			{
				op_t* op = &T[t].ops[i];
				order[nexec++] = op;
				sk_dg_u64(&OUT->digest, op->kind | (uint64_t)op->rc << 8 | (uint64_t)op->bret << 40);
				if (op->kind == O_STEPR || op->kind == O_STEPR2)
					sk_dg_add(&OUT->digest, op->out, op->len);
				if (op->kind <= O_CREATE_SRC)
				{
					if (op->rc == ERR_OK) ++ok_creates;
					else if (op->rc == ERR_NOT_ENOUGH_ENTROPY) ++starved_creates, sk_count("probe.entropy_starved_create", 1);
					else if (op->rc == ERR_FILE_CREATE) init_victim = 1;
				}
			}
		global_refs += T[t].refs;
	}
	/* oracle 4: reference count / lifetime */
	{
		int valid = rngIsValid();
		if (!!valid != (global_refs > 0))
		{
			sk_violate(OUT, "refcount", "at quiescence rngIsValid()=%d but %d references are outstanding", valid, global_refs);
			return;
		}
	}
	/* oracle 5a: every request fully served: compared in the replay below */
	/* simulated process exit */
	{
		int h, ran = 0;
		for (h = mt_nexit; h-- > 0;)
			mt_exit_handlers[h](), ++ran;
		sk_count("probe.exit_handlers_run", (uint64_t)ran);
		if (mt_nexit > 1)
		{
			sk_violate(OUT, "once", "the exit handler was registered %d times", mt_nexit);
			return;
		}
		if (mt_lock_errors)
		{
			sk_violate(OUT, "mutex_misuse", "invalid mutex operation during exit handlers");
			return;
		}
		if (dtor_runs != dtor_regs)
		{
			sk_violate(OUT, "exit_destructors", "%lu destructors registered through utilOnExit, %lu ran at exit", (unsigned long)dtor_regs, (unsigned long)dtor_runs);
			return;
		}
		if (dtor_regs > 1)
			sk_count("probe.several_exit_destructors", 1);
		if (mt_nexit == 1 && sk_heap_live() != 0)
		{
			sk_violate(OUT, "leak_at_exit", "%ld block(s) still allocated after the exit handlers ran", sk_heap_live());
			return;
		}
	}
	if (wipe_ctr_races)
		sk_count("probe.memwipe_counter_race_not_reported", wipe_ctr_races);
	if (tsan_reports)
	{
		char cls[160];
		snprintf(cls, sizeof(cls), "tsan:%s", tsan_desc);
		for (i = 0; cls[i]; ++i)
			if (cls[i] == ' ')
				cls[i] = '_';
		sk_violate(OUT, cls, "ThreadSanitizer reported %d data race(s) in this schedule; first: %s", tsan_reports, tsan_desc);
		return;
	}
	if (variant_exit)
		return; /* registration order is not part of the generator's sequential semantics */
	/* oracle 3: linearizability against the sequential library */
	qsort(order, nexec, sizeof(order[0]), cmp_lockseq);
	for (i = 0; i < nexec; ++i)
		saved[i] = *order[i];
	replaying = 1, esreplay_pos = 0;
	{
		int fs = fail_state_alloc, fl = fail_list_alloc;
		reset_world(fill);
		sk_wipe_normalise();
		fail_state_alloc = fs, fail_list_alloc = fl;
	}
	sk_heap_arm();
	{
		taskplan_t seq;
		memset(&seq, 0, sizeof(seq));
		for (i = 0; i < nexec && !OUT->violated; ++i)
		{
			op_t* op = order[i];
			op_t got = *op;
			got.lockseq = 0;
			seq.refs = 1000; /* contract is checked per task in the concurrent run */
			exec_op(&seq, &got);
			if (got.rc != saved[i].rc || got.bret != saved[i].bret ||
				((op->kind == O_STEPR || op->kind == O_STEPR2) && memcmp(got.out, saved[i].out, MAXLEN)))
			{
				sk_violate(OUT, "linearizability",
					"op #%u in lock order (%s len=%u): concurrent run rc=%u ret=%d, sequential replay rc=%u ret=%d%s",
					i, ON[op->kind], op->len, (unsigned)saved[i].rc, saved[i].bret, (unsigned)got.rc, got.bret,
					memcmp(got.out, saved[i].out, MAXLEN) ? ", output octets differ" : "");
			}
		}
	}
	sk_heap_disarm();
	/* run the replay's exit handlers so the replay world is torn down too */
	{
		int h;
		for (h = mt_nexit; h-- > 0;)
			mt_exit_handlers[h]();
	}
	replaying = 0;
	if (OUT->violated)
		return;
	sk_count("probe.linearizability_checked_ops", nexec);
	/* oracle 5b: no generator output shared between two requests */
	for (i = 0; i < nexec; ++i)
	{
		unsigned j, k;
		if ((order[i]->kind != O_STEPR && order[i]->kind != O_STEPR2) || order[i]->len < 16)
			continue;
		for (j = i + 1; j < nexec; ++j)
		{
			if ((order[j]->kind != O_STEPR && order[j]->kind != O_STEPR2) || order[j]->len < 16)
				continue;
			for (k = 0; k + 16 <= order[i]->len; ++k)
				if (memmem(order[j]->out, order[j]->len, order[i]->out + k, 16))
				{
					sk_violate(OUT, "shared_output", "two requests received the same 16 generator octets");
					return;
				}
		}
	}
	/* oracle 7: recovery once faults stop */
	if (ok_creates == 0 && nexec > 0)
	{
		err_t c;
		int k;
		for (k = 0; k < 5; ++k)
			es_mode[k] = ES_OK;
		fail_state_alloc = fail_list_alloc = 0;
		reset_world(fill);
		/* same process lifetime is not reproducible after exit; a fresh lifetime
		   with no faults must work */
		sk_heap_arm();
		c = rngCreate(0, 0);
		if (c == ERR_OK)
		{
			octet b[32];
			rngStepR(b, 32, 0);
			rngClose();
		}
		sk_heap_disarm();
		{
			int h;
			for (h = mt_nexit; h-- > 0;)
				mt_exit_handlers[h]();
		}
		sk_count("probe.recovery_checked", 1);
		if (c != ERR_OK)
			sk_violate(OUT, "no_recovery", "fault-free rngCreate after a faulted lifetime returned %u", (unsigned)c);
	}
}

/* ------------------------------------------------- once / atomics workload */
static size_t once_trig, once_runs, atom_ctr, cas_lock;
static size_t payload[4];
static size_t incr_seen[MAXT][8];
static unsigned nincr_seen[MAXT];
static int once_bad_payload;
static long plain_protected;
static unsigned once_waiter_spins;

static void once_fn(void)
{
	++once_runs;
	sk_yield(50, 0); /* the initialiser may be preempted */
	payload[0] = 0x1111, payload[1] = 0x2222;
	sk_yield(50, 0);
	payload[2] = 0x3333, payload[3] = 0x4444;
}

typedef struct { unsigned char kind[8]; unsigned n; int id; long net; } atask_t;
static atask_t AT[MAXT];

__attribute__((no_sanitize("thread"))) static void atask_main(void* arg)
{
	atask_t* a = (atask_t*)arg;
	unsigned i;
	for (i = 0; i < a->n; ++i)
	{
		if (!sk_keep(MASK, (unsigned)a->id * 8 + i))
			continue;
		switch (a->kind[i])
		{
		case 0:
			mtCallOnce(&once_trig, once_fn);
			if (payload[0] != 0x1111 || payload[1] != 0x2222 || payload[2] != 0x3333 || payload[3] != 0x4444)
				once_bad_payload = 1;
			break;
		case 1:
		{
			size_t v = mtAtomicIncr(&atom_ctr);
			incr_seen[a->id][nincr_seen[a->id]++] = v;
			++a->net;
			break;
		}
		case 2:
		{
			size_t v = mtAtomicDecr(&atom_ctr);
			incr_seen[a->id][nincr_seen[a->id]++] = v;
			--a->net;
			break;
		}
		case 3: /* CAS spin lock around a plain counter */
			while (mtAtomicCmpSwap(&cas_lock, 0, (size_t)a->id + 1) != 0)
				sk_yield(51, &cas_lock);
			++plain_protected;
			sk_yield(52, 0);
			++plain_protected;
			if (mtAtomicCmpSwap(&cas_lock, (size_t)a->id + 1, 0) != (size_t)a->id + 1)
				once_bad_payload = 2;
			break;
		}
		sk_yield(40, 0);
	}
}

static void run_once(uint64_t seed)
{
	sk_rng r;
	sk_sched_cfg cfg;
	unsigned t, i, nt;
	int rc, only_incr, only_decr;
	long net = 0, casn = 0;
	sk_rng_seed(&r, seed);
	nt = 2 + sk_below(&r, sk_options.tier ? 15 : 7);
	only_incr = sk_chance(&r, 1, 3);
	only_decr = !only_incr && sk_chance(&r, 1, 3);
	for (t = 0; t < nt; ++t)
	{
		AT[t].id = (int)t, AT[t].n = 1 + sk_below(&r, 8), AT[t].net = 0;
		for (i = 0; i < AT[t].n; ++i)
		{
			unsigned k = sk_below(&r, 4);
			if (only_incr && k == 2)
				k = 1;
			if (only_decr && k == 1)
				k = 2;
			AT[t].kind[i] = (unsigned char)k;
			if (k == 3 && sk_keep(MASK, t * 8 + i))
				++casn;
		}
	}
	OUT->nops = nt * 8;
	{
		char line[300];
		static const char* KN[] = { "Once", "Incr", "Decr", "CASlock" };
		for (t = 0; t < nt; ++t)
		{
			int n = snprintf(line, sizeof(line), "task %u:", t);
			for (i = 0; i < AT[t].n; ++i)
				if (sk_keep(MASK, t * 8 + i))
					n += snprintf(line + n, sizeof(line) - (size_t)n, " %s", KN[AT[t].kind[i]]);
			sk_text(OUT, "%s", line);
		}
	}
	once_trig = 0, once_runs = 0, atom_ctr = 1000, cas_lock = 0;
	memset(nincr_seen, 0, sizeof(nincr_seen));
	once_bad_payload = 0, plain_protected = 0;
	memset(payload, 0, sizeof(payload));
	mt_wrap_reset();
	sk_heap_reset(sk_u64(&r));
	tsan_reports = 0, wipe_ctr_races = 0;
	cfg.strategy = (int)sk_below(&r, 4);
	cfg.pct_depth = (int)sk_below(&r, 4);
	cfg.max_steps = 20000;
	sk_sched_init(sk_u64(&r), &cfg);
	for (t = 0; t < nt; ++t)
		sk_spawn(atask_main, &AT[t]);
	rc = sk_sched_run();
	sk_count("steps", sk_steps());
	sk_dg_u64(&OUT->digest, sk_sched_sig());
	OUT->sig = sk_sched_sig();
	OUT->nontrivial = 1;
	sk_text(OUT, "schedule: strategy=%d steps=%u result=%d", cfg.strategy, sk_steps(), rc);
	sk_sched_cleanup();
	if (rc)
		sk_restart_requested = 1;
	if (rc == 1)
	{
		sk_violate(OUT, "deadlock", "once/atomic tasks stuck");
		return;
	}
	if (rc == 2)
	{
		/* bounded liveness: after the initialiser returns every waiter returns within its next CAS */
		sk_violate(OUT, "livelock_candidate", "step cap reached: a once waiter or CAS spinner never got through");
		return;
	}
	for (t = 0; t < nt; ++t)
		net += AT[t].net;
	sk_dg_u64(&OUT->digest, once_runs), sk_dg_u64(&OUT->digest, atom_ctr);
	{
		int any_once = 0;
		for (t = 0; t < nt; ++t)
			for (i = 0; i < AT[t].n; ++i)
				if (AT[t].kind[i] == 0 && sk_keep(MASK, t * 8 + i))
					any_once = 1;
		if (any_once && once_runs != 1)
		{
			sk_violate(OUT, "once_ran_not_exactly_once", "the initialiser ran %lu times", (unsigned long)once_runs);
			return;
		}
	}
	if (once_bad_payload == 1)
	{
		sk_violate(OUT, "once_effects_not_visible", "a caller returned from mtCallOnce before the initialiser's writes were complete");
		return;
	}
	if (once_bad_payload == 2)
	{
		sk_violate(OUT, "atomic_cas", "a CAS release did not see its own lock value");
		return;
	}
	if ((long)atom_ctr != 1000 + net)
	{
		sk_violate(OUT, "atomic_counter", "counter ended at %lu, expected %ld", (unsigned long)atom_ctr, 1000 + net);
		return;
	}
	if (plain_protected != 2 * casn)
	{
		sk_violate(OUT, "atomic_cas", "CAS-protected counter is %ld, expected %ld", plain_protected, 2 * casn);
		return;
	}
	if (only_incr || only_decr)
	{
		/* with one direction only, the values returned by the n operations must
		   be exactly 1000 +- 1 .. 1000 +- n, each once (every return value is the
		   new counter value) */
		static size_t all[MAXT * 8];
		unsigned n = 0, j;
		for (t = 0; t < nt; ++t)
			for (i = 0; i < nincr_seen[t]; ++i)
				all[n++] = incr_seen[t][i];
		for (i = 0; i < n; ++i)
		{
			size_t lo = only_incr ? 1001 : 1000 - n, hi = only_incr ? 1000 + n : 999;
			if (all[i] < lo || all[i] > hi)
			{
				sk_violate(OUT, "atomic_counter", "an atomic %s returned %lu, outside %lu..%lu", only_incr ? "increment" : "decrement",
					(unsigned long)all[i], (unsigned long)lo, (unsigned long)hi);
				return;
			}
			for (j = i + 1; j < n; ++j)
				if (all[i] == all[j])
				{
					sk_violate(OUT, "atomic_counter", "two atomic %ss returned the same value %lu", only_incr ? "increment" : "decrement", (unsigned long)all[i]);
					return;
				}
		}
	}
	if (wipe_ctr_races)
		sk_count("probe.memwipe_counter_race_not_reported", wipe_ctr_races);
	if (tsan_reports)
	{
		char cls[160];
		snprintf(cls, sizeof(cls), "tsan:%s", tsan_desc);
		for (i = 0; cls[i]; ++i)
			if (cls[i] == ' ')
				cls[i] = '_';
		sk_violate(OUT, cls, "ThreadSanitizer reported %d data race(s); first: %s", tsan_reports, tsan_desc);
	}
}

/* ---------------------------------------------------------------- engine */
static int variant_once;

static void init(const sk_opts* o)
{
	variant_once = o->variant && !strcmp(o->variant, "once");
	variant_exit = o->variant && !strcmp(o->variant, "exit");
	mtVerifYield = yield_hook;
	rngVerifESRead = es_hook;
	mt_on_acquire = on_acquire;
	sk_heap_filter = heap_filter;
	sk_heap_set_yield(alloc_hook);
	STATE_SZ = rngCreate_keep() + sizeof(size_t);
	mt_sim_on = 1;
}

static void run(uint64_t seed, const sk_mask* mask, sk_result* out)
{
	OUT = out, MASK = mask;
	if (variant_once)
		run_once(seed);
	else
		run_rng(seed);
}

static void summary(FILE* f) { (void)f; }

sk_engine sk_the_engine = { "mtsim", init, run, summary };
