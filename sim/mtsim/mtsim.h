#ifndef MTSIM_H
#define MTSIM_H
extern int mt_mutex_inits, mt_mutex_init_fail_at, mt_atexit_fail, mt_lock_errors;
extern void (*mt_exit_handlers[8])(void);
extern int mt_nexit, mt_contended, mt_sim_on;
extern void (*mt_on_acquire)(int mutex_index, int task);
void mt_wrap_reset(void);
int mt_mutex_owner(int index);
int mt_mutex_count(void);
#endif
