/* Descriptors: arithmetic layer with the caller's own scratch stack (C07).
   Every operand, result, object and stack is an exact-size block of the
   simulated heap: object states at exactly _keep(), stacks at exactly _deep(),
   stacks filled with seeded garbage that must not influence any result. */
#include "fc.h"
#include "bee2/core/mem.h"
#include "bee2/core/util.h"
#include "bee2/core/word.h"
#include "bee2/math/ww.h"
#include "bee2/math/zz.h"
#include "bee2/math/pp.h"
#include "bee2/math/qr.h"
#include "bee2/math/zm.h"
#include "bee2/math/gfp.h"
#include "bee2/math/gf2.h"
#include "bee2/math/ec.h"
#include "bee2/math/ecp.h"
#include "bee2/crypto/bign.h"

#define W(n) ((n) * sizeof(word))
/* slots: n0 = n, n1 = m (word lengths); a1, a2 operands; a0, a4, a5 results; a3 stack */

static size_t pick_n(fc_ctx* c, size_t lo, size_t hi)
{
	return lo + fc_below(c, (uint32_t)(hi - lo + 1));
}

static word* opnd(fc_ctx* c, size_t n, int top_nonzero, int odd)
{
	word* a = (word*)fc_pub(c, W(n ? n : 1));
	if (n && fc_below(c, 8) == 0)
		memset(a, 0xFF, W(n));            /* all ones: maximal carries */
	if (n && top_nonzero && a[n - 1] == 0)
		a[n - 1] = 1;
	if (n && odd)
		a[0] |= 1;
	return a;
}

static void* stk(size_t deep) { return sk_alloc(deep ? deep : 1); }

/* ---------------------------------------------------------------- zz */
static void g_nm(fc_ctx* c, size_t lo)
{
	c->n[0] = pick_n(c, lo, 24), c->n[1] = pick_n(c, lo, 24);
	c->variant = (int)(c->n[0] * 100 + c->n[1]);
}

static void gen_zzMul(fc_ctx* c)
{
	g_nm(c, 0);
	c->a[1] = opnd(c, c->n[0], 0, 0), c->a[2] = opnd(c, c->n[1], 0, 0);
	c->a[0] = fc_out(c, W(c->n[0] + c->n[1]));
	c->a[3] = stk(zzMul_deep(c->n[0], c->n[1]));
}
static err_t call_zzMul(fc_ctx* c) { zzMul(c->a[0], c->a[1], c->n[0], c->a[2], c->n[1], c->a[3]); return ERR_OK; }
static void gen_ppMul(fc_ctx* c)
{
	g_nm(c, 0);
	c->a[1] = opnd(c, c->n[0], 0, 0), c->a[2] = opnd(c, c->n[1], 0, 0);
	c->a[0] = fc_out(c, W(c->n[0] + c->n[1]));
	c->a[3] = stk(ppMul_deep(c->n[0], c->n[1]));
}
static err_t call_ppMul(fc_ctx* c) { ppMul(c->a[0], c->a[1], c->n[0], c->a[2], c->n[1], c->a[3]); return ERR_OK; }

static void gen_zzSqr(fc_ctx* c)
{
	c->n[0] = pick_n(c, 0, 28), c->variant = (int)c->n[0];
	c->a[1] = opnd(c, c->n[0], 0, 0);
	c->a[0] = fc_out(c, W(2 * c->n[0]));
	c->a[3] = stk(zzSqr_deep(c->n[0]));
}
static err_t call_zzSqr(fc_ctx* c) { zzSqr(c->a[0], c->a[1], c->n[0], c->a[3]); return ERR_OK; }
static void gen_ppSqr(fc_ctx* c)
{
	c->n[0] = pick_n(c, 0, 28), c->variant = (int)c->n[0];
	c->a[1] = opnd(c, c->n[0], 0, 0);
	c->a[0] = fc_out(c, W(2 * c->n[0]));
	c->a[3] = stk(ppSqr_deep(c->n[0]));
}
static err_t call_ppSqr(fc_ctx* c) { ppSqr(c->a[0], c->a[1], c->n[0], c->a[3]); return ERR_OK; }

static void gen_zzSqrt(fc_ctx* c)
{
	c->n[0] = pick_n(c, 1, 20), c->variant = (int)c->n[0];
	c->a[1] = opnd(c, c->n[0], 0, 0);
	c->a[0] = fc_out(c, W((c->n[0] + 1) / 2));
	c->a[3] = stk(zzSqrt_deep(c->n[0]));
}
static err_t call_zzSqrt(fc_ctx* c) { zzSqrt(c->a[0], c->a[1], c->n[0], c->a[3]); return ERR_OK; }

/* Div/Mod: n >= m > 0, b[m-1] != 0 */
static void g_div(fc_ctx* c)
{
	c->n[1] = pick_n(c, 1, 16), c->n[0] = c->n[1] + pick_n(c, 0, 16);
	c->variant = (int)(c->n[0] * 100 + c->n[1]);
	c->a[1] = opnd(c, c->n[0], 0, 0), c->a[2] = opnd(c, c->n[1], 1, 0);
}
static void gen_zzDiv(fc_ctx* c)
{
	g_div(c);
	c->a[0] = fc_out(c, W(c->n[0] - c->n[1] + 1));
	c->a[4] = fc_out(c, W(c->n[1]));
	c->a[3] = stk(zzDiv_deep(c->n[0], c->n[1]));
}
static err_t call_zzDiv(fc_ctx* c) { zzDiv(c->a[0], c->a[4], c->a[1], c->n[0], c->a[2], c->n[1], c->a[3]); return ERR_OK; }
/* Mod (unlike Div) has no n >= m precondition: a third of the cases have a
   dividend shorter than the divisor, or empty */
static void g_mod_nm(fc_ctx* c)
{
	g_div(c);
	if (fc_below(c, 3) == 0)
	{
		c->n[0] = fc_below(c, (uint32_t)c->n[1] + 1);
		c->a[1] = opnd(c, c->n[0], 0, 0);
		c->variant = (int)(c->n[0] * 100 + c->n[1]);
	}
}
static void gen_zzMod(fc_ctx* c)
{
	g_mod_nm(c);
	c->a[0] = fc_out(c, W(c->n[1]));
	c->a[3] = stk(zzMod_deep(c->n[0], c->n[1]));
}
static err_t call_zzMod(fc_ctx* c) { zzMod(c->a[0], c->a[1], c->n[0], c->a[2], c->n[1], c->a[3]); return ERR_OK; }
static void gen_ppDiv(fc_ctx* c)
{
	g_div(c);
	c->a[0] = fc_out(c, W(c->n[0] - c->n[1] + 1));
	c->a[4] = fc_out(c, W(c->n[0]));     /* pp.h documents [n]r */
	c->a[3] = stk(ppDiv_deep(c->n[0], c->n[1]));
}
static err_t call_ppDiv(fc_ctx* c) { ppDiv(c->a[0], c->a[4], c->a[1], c->n[0], c->a[2], c->n[1], c->a[3]); return ERR_OK; }
static void gen_ppMod(fc_ctx* c)
{
	g_mod_nm(c);
	c->a[0] = fc_out(c, W(c->n[1]));
	c->a[3] = stk(ppMod_deep(c->n[0], c->n[1]));
}
static err_t call_ppMod(fc_ctx* c) { ppMod(c->a[0], c->a[1], c->n[0], c->a[2], c->n[1], c->a[3]); return ERR_OK; }

/* GCD family: a, b != 0 */
static void g_gcd(fc_ctx* c)
{
	g_nm(c, 1);
	c->a[1] = opnd(c, c->n[0], 0, 0), c->a[2] = opnd(c, c->n[1], 0, 0);
	if (wwIsZero(c->a[1], c->n[0])) ((word*)c->a[1])[0] = 6;
	if (wwIsZero(c->a[2], c->n[1])) ((word*)c->a[2])[0] = 10;
}
#define MINNM(c) ((c)->n[0] < (c)->n[1] ? (c)->n[0] : (c)->n[1])
static void gen_zzGCD(fc_ctx* c) { g_gcd(c); c->a[0] = fc_out(c, W(MINNM(c))); c->a[3] = stk(zzGCD_deep(c->n[0], c->n[1])); }
static err_t call_zzGCD(fc_ctx* c) { zzGCD(c->a[0], c->a[1], c->n[0], c->a[2], c->n[1], c->a[3]); return ERR_OK; }
static void gen_ppGCD(fc_ctx* c) { g_gcd(c); c->a[0] = fc_out(c, W(MINNM(c))); c->a[3] = stk(ppGCD_deep(c->n[0], c->n[1])); }
static err_t call_ppGCD(fc_ctx* c) { ppGCD(c->a[0], c->a[1], c->n[0], c->a[2], c->n[1], c->a[3]); return ERR_OK; }
static void gen_zzLCM(fc_ctx* c) { g_gcd(c); c->a[0] = fc_out(c, W(c->n[0] + c->n[1])); c->a[3] = stk(zzLCM_deep(c->n[0], c->n[1])); }
static err_t call_zzLCM(fc_ctx* c) { zzLCM(c->a[0], c->a[1], c->n[0], c->a[2], c->n[1], c->a[3]); return ERR_OK; }
static void gen_zzExGCD(fc_ctx* c)
{
	g_gcd(c);
	c->a[0] = fc_out(c, W(MINNM(c))), c->a[4] = fc_out(c, W(c->n[1])), c->a[5] = fc_out(c, W(c->n[0]));
	c->a[3] = stk(zzExGCD_deep(c->n[0], c->n[1]));
}
static err_t call_zzExGCD(fc_ctx* c) { zzExGCD(c->a[0], c->a[4], c->a[5], c->a[1], c->n[0], c->a[2], c->n[1], c->a[3]); return ERR_OK; }
static void gen_ppExGCD(fc_ctx* c)
{
	g_gcd(c);
	c->a[0] = fc_out(c, W(MINNM(c))), c->a[4] = fc_out(c, W(c->n[1])), c->a[5] = fc_out(c, W(c->n[0]));
	c->a[3] = stk(ppExGCD_deep(c->n[0], c->n[1]));
}
static err_t call_ppExGCD(fc_ctx* c) { ppExGCD(c->a[0], c->a[4], c->a[5], c->a[1], c->n[0], c->a[2], c->n[1], c->a[3]); return ERR_OK; }
static void gen_zzJacobi(fc_ctx* c)
{
	g_nm(c, 1);
	c->a[1] = opnd(c, c->n[0], 0, 0), c->a[2] = opnd(c, c->n[1], 0, 1);
	c->a[0] = fc_out(c, sizeof(int));
	c->a[3] = stk(zzJacobi_deep(c->n[0], c->n[1]));
}
static err_t call_zzJacobi(fc_ctx* c) { *(int*)c->a[0] = zzJacobi(c->a[1], c->n[0], c->a[2], c->n[1], c->a[3]); return ERR_OK; }

/* modular: mod[n-1] != 0, a, b < mod (made so by clearing the top word bits) */
static void g_mod(fc_ctx* c, int odd)
{
	word* m;
	c->n[0] = pick_n(c, 1, 20), c->variant = (int)c->n[0];
	m = opnd(c, c->n[0], 1, odd);
	m[c->n[0] - 1] |= (word)1 << (B_PER_W - 1);
	c->a[2] = m;
	c->a[1] = opnd(c, c->n[0], 0, 0), c->a[5] = opnd(c, c->n[0], 0, 0);
	((word*)c->a[1])[c->n[0] - 1] >>= 1, ((word*)c->a[5])[c->n[0] - 1] >>= 1;
	c->a[0] = fc_out(c, W(c->n[0]));
}
static void gen_zzMulMod(fc_ctx* c) { g_mod(c, 0); c->a[3] = stk(zzMulMod_deep(c->n[0])); }
static err_t call_zzMulMod(fc_ctx* c) { zzMulMod(c->a[0], c->a[1], c->a[5], c->a[2], c->n[0], c->a[3]); return ERR_OK; }
static void gen_zzSqrMod(fc_ctx* c) { g_mod(c, 0); c->a[3] = stk(zzSqrMod_deep(c->n[0])); }
static err_t call_zzSqrMod(fc_ctx* c) { zzSqrMod(c->a[0], c->a[1], c->a[2], c->n[0], c->a[3]); return ERR_OK; }
static void gen_ppMulMod(fc_ctx* c) { g_mod(c, 0); c->a[3] = stk(ppMulMod_deep(c->n[0])); }
static err_t call_ppMulMod(fc_ctx* c) { ppMulMod(c->a[0], c->a[1], c->a[5], c->a[2], c->n[0], c->a[3]); return ERR_OK; }
static void gen_ppSqrMod(fc_ctx* c) { g_mod(c, 0); c->a[3] = stk(ppSqrMod_deep(c->n[0])); }
static err_t call_ppSqrMod(fc_ctx* c) { ppSqrMod(c->a[0], c->a[1], c->a[2], c->n[0], c->a[3]); return ERR_OK; }
static void gen_zzInvMod(fc_ctx* c)
{
	g_mod(c, 1);
	if (wwIsZero(c->a[1], c->n[0])) ((word*)c->a[1])[0] = 1;
	c->a[3] = stk(zzInvMod_deep(c->n[0]));
}
static err_t call_zzInvMod(fc_ctx* c) { zzInvMod(c->a[0], c->a[1], c->a[2], c->n[0], c->a[3]); return ERR_OK; }
static void gen_zzDivMod(fc_ctx* c)
{
	g_mod(c, 1);
	if (wwIsZero(c->a[1], c->n[0])) ((word*)c->a[1])[0] = 1;
	c->a[3] = stk(zzDivMod_deep(c->n[0]));
}
static err_t call_zzDivMod(fc_ctx* c) { zzDivMod(c->a[0], c->a[5], c->a[1], c->a[2], c->n[0], c->a[3]); return ERR_OK; }
static void gen_ppInvMod(fc_ctx* c)
{
	g_mod(c, 1);
	if (wwIsZero(c->a[1], c->n[0])) ((word*)c->a[1])[0] = 1;
	c->a[3] = stk(ppInvMod_deep(c->n[0]));
}
static err_t call_ppInvMod(fc_ctx* c) { ppInvMod(c->a[0], c->a[1], c->a[2], c->n[0], c->a[3]); return ERR_OK; }
static void gen_ppDivMod(fc_ctx* c)
{
	g_mod(c, 1);
	if (wwIsZero(c->a[1], c->n[0])) ((word*)c->a[1])[0] = 1;
	c->a[3] = stk(ppDivMod_deep(c->n[0]));
}
static err_t call_ppDivMod(fc_ctx* c) { ppDivMod(c->a[0], c->a[5], c->a[1], c->a[2], c->n[0], c->a[3]); return ERR_OK; }
static void gen_zzPowerMod(fc_ctx* c)
{
	g_mod(c, 0);
	c->n[1] = pick_n(c, 1, 4);
	c->a[5] = opnd(c, c->n[1], 0, 0);
	c->a[3] = stk(zzPowerMod_deep(c->n[0], c->n[1]));
}
static err_t call_zzPowerMod(fc_ctx* c) { zzPowerMod(c->a[0], c->a[1], c->n[0], c->a[5], c->n[1], c->a[2], c->a[3]); return ERR_OK; }
static void gen_ppIsIrred(fc_ctx* c)
{
	c->n[0] = pick_n(c, 1, 9), c->variant = (int)c->n[0];
	c->a[1] = opnd(c, c->n[0], 1, 1);
	c->a[0] = fc_out(c, sizeof(bool_t));
	c->a[3] = stk(ppIsIrred_deep(c->n[0]));
}
static err_t call_ppIsIrred(fc_ctx* c) { *(bool_t*)c->a[0] = ppIsIrred(c->a[1], c->n[0], c->a[3]); return ERR_OK; }
static void gen_ppMinPolyMod(fc_ctx* c)
{
	g_mod(c, 1);
	c->a[3] = stk(ppMinPolyMod_deep(c->n[0]));
	/* MSan only: ppMinPolyMod builds s[] bit by bit with wwSetBit(), whose masked
	   merge a ^= (f ^ a) & bit is exact but not tracked bit-precisely (xor of an
	   undefined bit with itself stays "undefined"); the garbage differential, which
	   has no such imprecision, decides this function */
	sk_mark_defined(c->a[3], ppMinPolyMod_deep(c->n[0]));
}
static err_t call_ppMinPolyMod(fc_ctx* c) { ppMinPolyMod(c->a[0], c->a[1], c->a[2], c->n[0], c->a[3]); return ERR_OK; }
static void gen_zzRedBarr(fc_ctx* c)
{
	g_mod(c, 0);
	c->nouts = 0;
	c->a[0] = fc_out(c, W(2 * c->n[0]));
	sk_bytes(&c->rng, c->a[0], W(2 * c->n[0]));
	c->a[4] = sk_alloc(W(c->n[0] + 2));
	c->a[3] = stk(utilMax(2, zzRedBarrStart_deep(c->n[0]), zzRedBarr_deep(c->n[0])));
}
static err_t call_zzRedBarr(fc_ctx* c)
{
	zzRedBarrStart(c->a[4], c->a[2], c->n[0], c->a[3]);
	zzRedBarr(c->a[0], c->a[2], c->n[0], c->a[4], c->a[3]);
	return ERR_OK;
}
static void gen_zzRedMont(fc_ctx* c)
{
	g_mod(c, 1);
	c->nouts = 0;
	c->a[0] = fc_out(c, W(2 * c->n[0]));
	sk_bytes(&c->rng, c->a[0], W(2 * c->n[0]));
	/* a < mod * R: clear the top word */
	((word*)c->a[0])[2 * c->n[0] - 1] = 0;
	c->a[3] = stk(zzRedMont_deep(c->n[0]));
}
static err_t call_zzRedMont(fc_ctx* c)
{
	zzRedMont(c->a[0], c->a[2], c->n[0], wordNegInv(((word*)c->a[2])[0]), c->a[3]);
	return ERR_OK;
}

/* ------------------------------------------------------- rings and curves */
/* zm*: a10 = ring object at exactly keep, a2 = modulus octets, n0 = no */
typedef void (*zm_create_f)(qr_o*, const octet*, size_t, void*);
static void gen_zm(fc_ctx* c, int kind)
{
	static const size_t nos[] = { 1, 7, 8, 9, 16, 24, 32, 33, 48, 64, 72 };
	size_t no = FC_PICK(c, nos), keep, deep, n;
	octet* mod = fc_pub(c, no);
	qr_o* r;
	mod[no - 1] |= 0x80;
	if (kind == 1)
	{
		/* Crandall form B^n - c needs whole words */
		no = (no + O_PER_W - 1) / O_PER_W * O_PER_W;
		if (no < 2 * O_PER_W)
			no = 2 * O_PER_W;
		mod = fc_raw(c, no);
		memset(mod, 0xFF, no);
		mod[0] = (octet)(0x01 | fc_below(c, 256));
		mod[1] = (octet)fc_below(c, 256);
	}
	if (kind == 3)
		mod[0] |= 1; /* Montgomery: odd */
	switch (kind)
	{
	case 0: keep = zmCreatePlain_keep(no), deep = zmCreatePlain_deep(no); break;
	case 1: keep = zmCreateCrand_keep(no), deep = zmCreateCrand_deep(no); break;
	case 2: keep = zmCreateBarr_keep(no), deep = zmCreateBarr_deep(no); break;
	case 3: keep = zmCreateMont_keep(no), deep = zmCreateMont_deep(no); break;
	default: keep = zmCreate_keep(no), deep = zmCreate_deep(no); break;
	}
	r = (qr_o*)sk_alloc(keep);
	c->a[10] = r, c->a[2] = mod, c->n[0] = no, c->n[5] = (size_t)kind;
	c->a[3] = stk(deep);
	n = W_OF_O(no);
	c->a[1] = fc_pub(c, no), c->a[5] = fc_pub(c, no);
	((octet*)c->a[1])[no - 1] &= 0x7F, ((octet*)c->a[5])[no - 1] &= 0x7F;
	c->a[0] = fc_out(c, no);
	c->a[6] = sk_alloc(W(n)), c->a[7] = sk_alloc(W(n)), c->a[8] = sk_alloc(W(n));
	c->variant = (int)(kind * 1000 + no);
}
static err_t call_zm(fc_ctx* c)
{
	qr_o* r = (qr_o*)c->a[10];
	void* st;
	size_t no = c->n[0];
	switch (c->n[5])
	{
	case 0: zmCreatePlain(r, c->a[2], no, c->a[3]); break;
	case 1: zmCreateCrand(r, c->a[2], no, c->a[3]); break;
	case 2: zmCreateBarr(r, c->a[2], no, c->a[3]); break;
	case 3: zmCreateMont(r, c->a[2], no, c->a[3]); break;
	default: zmCreate(r, c->a[2], no, c->a[3]); break;
	}
	/* ring operations with a stack of exactly r->deep */
	st = stk(r->deep);
	if (!qrFrom(c->a[6], c->a[1], r, st) || !qrFrom(c->a[7], c->a[5], r, st))
	{
		memset(c->a[0], 0, no);
		return ERR_OK;
	}
	qrMul(c->a[8], c->a[6], c->a[7], r, st);
	qrSqr(c->a[6], c->a[8], r, st);
	qrAdd(c->a[8], c->a[6], c->a[7], r);
	{
		/* x - y = x + (-y); (x / y) y = x for a unit y */
		word* d1 = (word*)sk_alloc(W(r->n));
		word* d2 = (word*)sk_alloc(W(r->n));
		qrSub(d1, c->a[8], c->a[7], r);
		qrNeg(d2, c->a[7], r);
		qrAdd(d2, d2, c->a[8], r);
		if (!wwEq(d1, d2, r->n))
			return ERR_BAD_LOGIC;
		if (zzIsOdd(r->mod, r->n) && !qrIsZero(c->a[7], r) &&
			zzIsCoprime(c->a[7], r->n, r->mod, r->n, stk(zzIsCoprime_deep(r->n, r->n))))
		{
			qrDiv(d1, c->a[8], c->a[7], r, st);
			qrMul(d2, d1, c->a[7], r, st);
			if (!wwEq(d2, c->a[8], r->n))
				return ERR_BAD_LOGIC;
		}
	}
	qrTo(c->a[0], c->a[8], r, st);
	return ERR_OK;
}
static void gen_zmPlain(fc_ctx* c) { gen_zm(c, 0); }
static void gen_zmCrand(fc_ctx* c) { gen_zm(c, 1); }
static void gen_zmBarr(fc_ctx* c) { gen_zm(c, 2); }
static void gen_zmMont(fc_ctx* c) { gen_zm(c, 3); }
static void gen_zmAuto(fc_ctx* c) { gen_zm(c, 4); }

/* curve over GF(p): field, curve, group objects at exactly keep; ecMulA etc. */
static void gen_ecp(fc_ctx* c)
{
	static const char* PN[3] = { "1.2.112.0.2.0.34.101.45.3.1", "1.2.112.0.2.0.34.101.45.3.2", "1.2.112.0.2.0.34.101.45.3.3" };
	bign_params* p = (bign_params*)fc_raw(c, sizeof(bign_params));
	size_t no, n;
	bignParamsStd(p, PN[fc_below(c, 3)]);
	no = p->l / 4, n = W_OF_O(no);
	c->a[10] = p, c->n[0] = no;
	c->a[11] = sk_alloc(gfpCreate_keep(no));
	c->a[12] = sk_alloc(ecpCreateJ_keep(n));
	c->n[1] = pick_n(c, 1, n + 1);             /* scalar length in words */
	c->a[1] = opnd(c, c->n[1], 0, 0);
	c->a[0] = fc_out(c, 2 * no);
	c->a[4] = fc_out(c, 2 * no);
	c->a[5] = fc_out(c, sizeof(int) * 4);
	c->variant = (int)(p->l * 100 + c->n[1]);
}
static err_t call_ecp(fc_ctx* c)
{
	bign_params* p = (bign_params*)c->a[10];
	qr_o* f = (qr_o*)c->a[11];
	ec_o* ec = (ec_o*)c->a[12];
	size_t no = c->n[0], n = W_OF_O(no);
	int* flags = (int*)c->a[5];
	word* pt = (word*)sk_alloc(W(2 * n));
	word* pt2 = (word*)sk_alloc(W(2 * n));
	void* st;
	memset(flags, 0, sizeof(int) * 4);
	memset(c->a[0], 0, 2 * no), memset(c->a[4], 0, 2 * no);
	st = stk(gfpCreate_deep(no));
	if (!gfpCreate(f, p->p, no, st))
		return ERR_OK;
	st = stk(ecpCreateJ_deep(n, f->deep));
	if (!ecpCreateJ(ec, f, p->a, p->b, st))
		return ERR_OK;
	st = stk(ecCreateGroup_deep(f->deep));
	if (!ecCreateGroup(ec, 0, p->yG, p->q, no, 1, st))
		return ERR_OK;
	flags[0] = 1;
	st = stk(ecpIsOnA_deep(n, f->deep));
	flags[1] = ecpIsOnA(ec->base, ec, st);
	st = stk(ecMulA_deep(n, ec->d, ec->deep, c->n[1]));
	flags[2] = ecMulA(pt, ec->base, ec, c->a[1], c->n[1], st);
	if (flags[2])
	{
		st = stk(ecpIsOnA_deep(n, f->deep));
		flags[3] = ecpIsOnA(pt, ec, st);
		st = stk(ecpAddAA_deep(n, f->deep));
		if (ecpAddAA(pt2, pt, ec->base, ec, st))
		{
			st = stk(f->deep);
			qrTo((octet*)c->a[4], ecX(pt2), f, st);
			qrTo((octet*)c->a[4] + no, ecY(pt2, n), f, st);
		}
		st = stk(f->deep);
		qrTo((octet*)c->a[0], ecX(pt), f, st);
		qrTo((octet*)c->a[0] + no, ecY(pt, n), f, st);
	}
	return ERR_OK;
}

/* binary field object */
static void gen_gf2(fc_ctx* c)
{
	static const size_t P[][4] = { {163, 7, 6, 3}, {233, 74, 0, 0}, {283, 12, 7, 5}, {409, 87, 0, 0}, {571, 10, 5, 2}, {191, 9, 0, 0}, {257, 12, 0, 0},
		{127, 63, 0, 0} /* m - k a multiple of the word size: the Trinomial0 code */ };
	unsigned k = fc_below(c, 8);
	size_t m = P[k][0], no = O_OF_B(m), n = W_OF_B(m);
	size_t* pp = (size_t*)fc_raw(c, 4 * sizeof(size_t));
	memcpy(pp, P[k], 4 * sizeof(size_t));
	c->a[2] = pp, c->n[0] = m;
	c->a[10] = sk_alloc(gf2Create_keep(m));
	c->a[3] = stk(gf2Create_deep(m));
	c->a[1] = fc_pub(c, no), c->a[5] = fc_pub(c, no);
	if (m % 8)
		((octet*)c->a[1])[no - 1] &= (octet)((1u << (m % 8)) - 1), ((octet*)c->a[5])[no - 1] &= (octet)((1u << (m % 8)) - 1);
	c->a[0] = fc_out(c, no);
	c->a[6] = sk_alloc(W(n)), c->a[7] = sk_alloc(W(n)), c->a[8] = sk_alloc(W(n));
	c->variant = (int)m;
}
static err_t call_gf2(fc_ctx* c)
{
	qr_o* f = (qr_o*)c->a[10];
	void* st;
	size_t no = O_OF_B(c->n[0]);
	memset(c->a[0], 0, no);
	if (!gf2Create(f, (const size_t*)c->a[2], c->a[3]))
		return ERR_OK;
	st = stk(f->deep);
	if (!qrFrom(c->a[6], c->a[1], f, st) || !qrFrom(c->a[7], c->a[5], f, st))
		return ERR_OK;
	qrMul(c->a[8], c->a[6], c->a[7], f, st);
	qrSqr(c->a[6], c->a[8], f, st);
	{
		/* characteristic 2: x + y = x - y, -y = y */
		word* s1 = (word*)sk_alloc(W(f->n));
		word* s2 = (word*)sk_alloc(W(f->n));
		qrAdd(s1, c->a[8], c->a[7], f);
		qrSub(s2, c->a[8], c->a[7], f);
		if (!wwEq(s1, s2, f->n))
			return ERR_BAD_LOGIC;
		qrNeg(s2, c->a[7], f);
		if (!wwEq(s2, c->a[7], f->n))
			return ERR_BAD_LOGIC;
	}
	if (!qrIsZero(c->a[6], f))
		qrInv(c->a[7], c->a[6], f, st), qrMul(c->a[8], c->a[7], c->a[8], f, st);
	qrTo(c->a[0], c->a[8], f, st);
	return ERR_OK;
}

#define D(NAME, GEN, CALL) { NAME, GEN, CALL, 0, FC_MATH }
const fc_desc fc_math[] = {
	D("zzMul", gen_zzMul, call_zzMul), D("zzSqr", gen_zzSqr, call_zzSqr), D("zzSqrt", gen_zzSqrt, call_zzSqrt),
	D("zzDiv", gen_zzDiv, call_zzDiv), D("zzMod", gen_zzMod, call_zzMod), D("zzGCD", gen_zzGCD, call_zzGCD),
	D("zzLCM", gen_zzLCM, call_zzLCM), D("zzExGCD", gen_zzExGCD, call_zzExGCD), D("zzJacobi", gen_zzJacobi, call_zzJacobi),
	D("zzMulMod", gen_zzMulMod, call_zzMulMod), D("zzSqrMod", gen_zzSqrMod, call_zzSqrMod),
	D("zzInvMod", gen_zzInvMod, call_zzInvMod), D("zzDivMod", gen_zzDivMod, call_zzDivMod),
	D("zzPowerMod", gen_zzPowerMod, call_zzPowerMod), D("zzRedBarr", gen_zzRedBarr, call_zzRedBarr),
	D("zzRedMont", gen_zzRedMont, call_zzRedMont),
	D("ppMul", gen_ppMul, call_ppMul), D("ppSqr", gen_ppSqr, call_ppSqr), D("ppDiv", gen_ppDiv, call_ppDiv),
	D("ppMod", gen_ppMod, call_ppMod), D("ppGCD", gen_ppGCD, call_ppGCD), D("ppExGCD", gen_ppExGCD, call_ppExGCD),
	D("ppMulMod", gen_ppMulMod, call_ppMulMod), D("ppSqrMod", gen_ppSqrMod, call_ppSqrMod),
	D("ppInvMod", gen_ppInvMod, call_ppInvMod), D("ppDivMod", gen_ppDivMod, call_ppDivMod),
	D("ppIsIrred", gen_ppIsIrred, call_ppIsIrred), D("ppMinPolyMod", gen_ppMinPolyMod, call_ppMinPolyMod),
	D("zmCreatePlain+ops", gen_zmPlain, call_zm), D("zmCreateCrand+ops", gen_zmCrand, call_zm),
	D("zmCreateBarr+ops", gen_zmBarr, call_zm), D("zmCreateMont+ops", gen_zmMont, call_zm),
	D("zmCreate+ops", gen_zmAuto, call_zm),
	D("gfp+ecpCreateJ+ecMulA", gen_ecp, call_ecp), D("gf2Create+ops", gen_gf2, call_gf2),
};
const unsigned fc_math_n = sizeof(fc_math) / sizeof(fc_math[0]);
