/* Link-time seam for atexit() in the faultcall engine: while a descriptor simulates a
   whole process lifetime the registered handlers are captured, and fc_run_exit() plays
   the process exit (handlers in reverse order).  Compiled WITHOUT instrumentation. */
#include <stddef.h>
int __real_atexit(void (*)(void));
static void (*handlers[16])(void);
static int nh, capture;
void fc_exit_capture(int on) { capture = on; if (on) nh = 0; }
int __wrap_atexit(void (*f)(void))
{
	if (!capture)
		return __real_atexit(f);
	if (nh >= 16)
		return -1;
	handlers[nh++] = f;
	return 0;
}
int fc_exit_pending(void) { return nh; }
void fc_run_exit(void)
{
	while (nh)
		handlers[--nh]();
}
