/* faultcall engine: every allocation of every call failed in turn (C09), bad
   arguments (C09), secret-differential free monitor (C15), garbage
   differential at exact sizes (C07).  See DESIGN.md §3. */
#include "fc.h"
#include <stdio.h>
#include <stdlib.h>
#include "bee2/core/mem.h"

static fc_ctx C;
static const fc_desc* all[400];
static unsigned nall;
static int mode; /* 0 alloc, 1 badarg, 2 wipe, 3 base */
static int mem_only; /* variant badmem (C07): the bad-argument calls, judged for memory safety only */
static const char* only_name;

/* ------------------------------------------------------------ ctx helpers */
uint32_t fc_below(fc_ctx* c, uint32_t n) { return sk_below(&c->rng, n); }

octet* fc_pub(fc_ctx* c, size_t n)
{
	octet* p = (octet*)sk_alloc(n);
	sk_bytes(&c->rng, p, n);
	return p;
}

octet* fc_raw(fc_ctx* c, size_t n)
{
	octet* p = (octet*)sk_alloc(n);
	(void)c;
	memset(p, 0, n);
	return p;
}

octet* fc_cut(fc_ctx* c, const void* p, size_t n)
{
	octet* q = (octet*)sk_alloc(n ? n : 1);
	(void)c;
	memcpy(q, p, n);
	return q;
}

void fc_mark_sec(fc_ctx* c, const void* p, size_t n)
{
	if (c->nsecs < 8)
		c->secs[c->nsecs].p = (octet*)p, c->secs[c->nsecs++].n = n;
}

void fc_mark_pub(fc_ctx* c, const void* p, size_t n)
{
	if (c->npubs < 8)
		c->pubs[c->npubs].p = (octet*)p, c->pubs[c->npubs++].n = n;
}

octet* fc_sec(fc_ctx* c, size_t n)
{
	octet* p = (octet*)sk_alloc(n);
	sk_bytes(&c->srng, p, n);
	fc_mark_sec(c, p, n);
	return p;
}

octet* fc_out(fc_ctx* c, size_t n)
{
	octet* p = (octet*)sk_alloc(n);
	memset(p, 0xCD, n);
	if (c->nouts < 8)
		c->outs[c->nouts].p = p, c->outs[c->nouts++].n = n;
	return p;
}

void fc_tape(void* buf, size_t count, void* state)
{
	fc_ctx* c = (fc_ctx*)state;
	if (c->tape_mode == 1)
		memset(buf, 0, count);
	else if (c->tape_mode == 2)
		memset(buf, 0xFF, count);
	else if (c->tape_mode == 3 && !c->craft_used && c->craft)
	{
		/* a particular, legal generator output chosen by the descriptor */
		memset(buf, 0, count);
		memcpy(buf, c->craft, count < c->craft_len ? count : c->craft_len);
		c->craft_used = 1;
	}
	else
		sk_bytes(&c->tape, buf, count);
}

static void ctx_init(uint64_t pub_seed, uint64_t sec_seed)
{
	memset(&C, 0, sizeof(C));
	sk_rng_seed(&C.rng, pub_seed);
	sk_rng_seed(&C.srng, sec_seed);
	sk_rng_seed(&C.tape, sk_mix(sec_seed, 77));
}

static err_t do_call(const fc_desc* d)
{
	err_t rc;
	sk_heap_arm();
	rc = d->call(&C);
	sk_heap_disarm();
	return rc;
}

static void digest_outs(sk_result* out, err_t rc)
{
	int i;
	sk_dg_u64(&out->digest, rc);
	if (rc == ERR_OK)
		for (i = 0; i < C.nouts; ++i)
			sk_dg_add(&out->digest, C.outs[i].p, C.outs[i].n);
}

static int common_post(const fc_desc* d, sk_result* out, const char* stage)
{
	char cls[96];
	if (sk_heap_exhausted())
	{
		sk_fault(out, "%s: simulated arena exhausted (%s)", d->name, stage);
		return 0;
	}
	if (sk_heap_overrun())
	{
		snprintf(cls, sizeof(cls), "overrun:%s", d->name);
		sk_violate(out, cls, "%s (%s): write outside an exactly sized block (red-zone canary damaged)", d->name, stage);
		return 0;
	}
	if (C.claim)
	{
		snprintf(cls, sizeof(cls), "outside_caller_buffer:%s", d->name);
		sk_violate(out, cls, "%s (%s): %s", d->name, stage, C.claim);
		return 0;
	}
	if (C.damage && !mem_only)
	{
		snprintf(cls, sizeof(cls), "damage_after_failed_call:%s", d->name);
		sk_violate(out, cls, "%s (%s): %s", d->name, stage, C.damage);
		return 0;
	}
	return 1;
}

/* --------------------------------------------------------------- C09 alloc */
static void run_alloc(const fc_desc* d, unsigned di, uint64_t seed, const sk_mask* mask, sk_result* out)
{
	uint64_t fill = sk_mix(seed, 1), ps = sk_mix(seed, 2), ss = sk_mix(seed, 3);
	long N, k;
	err_t rc0, rc;
	char cls[96];
	sk_heap_reset(fill);
	ctx_init(ps, ss);
	d->gen(&C);
	sk_text(out, "function %s, argument variant %d", d->name, C.variant);
	rc0 = do_call(d);
	N = sk_heap_allocs();
	sk_text(out, "call %s (variant %d): fault-free run rc=%u allocations=%ld", d->name, C.variant, (unsigned)rc0, N);
	digest_outs(out, rc0);
	if (!common_post(d, out, "fault-free"))
		return;
	if (rc0 != ERR_OK)
	{
		sk_fault(out, "%s: generated valid call failed with %u (descriptor bug)", d->name, (unsigned)rc0);
		return;
	}
	if (sk_heap_live() != 0)
	{
		snprintf(cls, sizeof(cls), "leak:%s", d->name);
		sk_violate(out, cls, "%s: %ld block(s) (%lu octets) left allocated after a successful call",
			d->name, sk_heap_live(), (unsigned long)sk_heap_live_bytes());
		return;
	}
	sk_count("calls", 1);
	{
		char nm[48];
		snprintf(nm, sizeof(nm), "N.%ld", N > 9 ? 9 : N);
		sk_count(nm, 1);
	}
	out->nops = (unsigned)(2 * N);
	if (N == 0)
		sk_count("probe.call_without_allocation", 1);
	for (k = 1; k <= N && !out->violated; ++k)
	{
		int pers;
		for (pers = 0; pers < 2 && !out->violated; ++pers)
		{
			unsigned e = (unsigned)(2 * (k - 1) + pers);
			if (!sk_keep(mask, e))
				continue;
			if (pers && k == N)
				continue; /* identical to the single fault */
			sk_heap_reset(fill);
			ctx_init(ps, ss);
			d->gen(&C);
			sk_text(out, "  about to fail allocation #%ld%s", k, pers ? "+" : "");
			sk_heap_arm();
			sk_heap_fail_at(k, pers);
			rc = d->call(&C);
			sk_heap_disarm();
			sk_text(out, "  fail allocation #%ld%s -> rc=%u live=%ld", k, pers ? " and all later ones" : "", (unsigned)rc, sk_heap_live());
			sk_dg_u64(&out->digest, rc);
			sk_count(pers ? "fault.alloc_fail_persistent" : "fault.alloc_fail_single", 1);
			sk_sig_add(sk_mix(((uint64_t)di << 32) | ((uint64_t)N << 16) | ((uint64_t)k << 1) | (unsigned)pers, 11));
			if (!common_post(d, out, "allocation fault"))
				return;
			if (sk_heap_failed() == 0)
			{
				/* the call took another path and never reached allocation k */
				sk_count("probe.fault_not_reached", 1);
				continue;
			}
			if (k > 1)
				sk_count("probe.alloc_fault_after_first_alloc", 1);
			if (rc == ERR_OK)
			{
				snprintf(cls, sizeof(cls), "alloc_fail_ignored:%s", d->name);
				sk_violate(out, cls, "%s returned ERR_OK although allocation #%ld of %ld failed%s",
					d->name, k, N, pers ? " (and all later ones)" : "");
			}
			else if (sk_heap_live() != 0)
			{
				snprintf(cls, sizeof(cls), "leak_on_alloc_fail:%s", d->name);
				sk_violate(out, cls, "%s: allocation #%ld of %ld failed%s, rc=%u, %ld block(s) (%lu octets) left behind",
					d->name, k, N, pers ? " (and all later ones)" : "", (unsigned)rc, sk_heap_live(),
					(unsigned long)sk_heap_live_bytes());
			}
		}
	}
}

/* -------------------------------------------------------------- C09 badarg */
static int has_window(const octet* hay, size_t hn, const octet* nee, size_t nn, size_t w)
{
	size_t i;
	if (nn < w || hn < w)
		return 0;
	for (i = 0; i + w <= nn; ++i)
		if (memmem(hay, hn, nee + i, w))
			return 1;
	return 0;
}

static int in_class(err_t rc, const err_t* exp, int n)
{
	int i;
	for (i = 0; i < n; ++i)
		if (exp[i] == rc || (exp[i] == FC_ANYERR && rc != ERR_OK))
			return 1;
	return 0;
}

static uint64_t ctx_digest(void)
{
	uint64_t h = SK_DG_INIT;
	sk_dg_add(&h, C.a, sizeof(C.a));
	sk_dg_add(&h, C.n, sizeof(C.n));
	sk_dg_add(&h, &C.tape_mode, sizeof(C.tape_mode));
	sk_dg_add(&h, &C.no_rng, sizeof(C.no_rng));
	return h;
}

static void run_badarg(const fc_desc* d, unsigned di, uint64_t seed, const sk_mask* mask, sk_result* out)
{
	uint64_t fill = sk_mix(seed, 1), ps = sk_mix(seed, 2), ss = sk_mix(seed, 3);
	int j, nsingle = 0, nown = 0, e = 0, pair;
	uint64_t valid_dg = 0;
	err_t exp[12], rc;
	char cls[96];
	sk_rng pr;
	if (!d->bad)
	{
		out->nops = 0;
		return;
	}
	sk_rng_seed(&pr, sk_mix(seed, 9));
	sk_text(out, "call %s: bad-argument variants", d->name);
	/* count the single variants */
	for (;;)
	{
		sk_heap_reset(fill);
		ctx_init(ps, ss);
		d->gen(&C);
		if (d->bad(&C, nsingle, exp) == 0)
			break;
		++nsingle;
		if (nsingle > 60)
			break;
	}
	nown = nsingle;
	if (d->flags & FC_RNGARG)
		++nsingle;   /* the engine's own variant: a null generator */
	for (pair = 0; pair < 2; ++pair)
	{
		int cnt = pair ? (nsingle > 1 ? 3 : 0) : nsingle;
		for (j = 0; j < cnt && !out->violated; ++j, ++e)
		{
			int n1, n2 = 0, j1 = j, j2 = -1;
			if (pair)
			{
				j1 = (int)sk_below(&pr, (uint32_t)nsingle);
				j2 = (int)sk_below(&pr, (uint32_t)nsingle);
			}
			if (!sk_keep(mask, (unsigned)e))
				continue;
			sk_heap_reset(fill);
			ctx_init(ps, ss);
			d->gen(&C);
			valid_dg = sk_heap_digest() ^ sk_mix(ctx_digest(), 5);
			if (j1 == nown)
				C.no_rng = 1, exp[0] = ERR_BAD_RNG, exp[1] = ERR_BAD_ANG, n1 = 2;   /* bels calls its generator of candidates "ang" */
			else
				n1 = d->bad(&C, j1, exp);
			if (j2 >= 0 && j2 != j1)
			{
				if (j2 == nown)
					C.no_rng = 1, exp[n1] = ERR_BAD_RNG, exp[n1 + 1] = ERR_BAD_ANG, n2 = 2;
				else
					n2 = d->bad(&C, j2, exp + n1);
			}
			if (pair && (sk_heap_digest() ^ sk_mix(ctx_digest(), 5)) == valid_dg)
			{
				/* the two mutations undid each other: the arguments are the valid ones again */
				sk_count("probe.variants_cancelled", 1);
				continue;
			}
			sk_text(out, "  about to call with invalid variant %d (second %d)", j1, j2);
			rc = do_call(d);
			sk_text(out, "  invalid variant %d%s%.0d -> rc=%u", j1, j2 >= 0 ? "+" : "", j2 >= 0 ? j2 : 0, (unsigned)rc);
			sk_dg_u64(&out->digest, rc);
			sk_count(pair ? "fault.two_bad_arguments" : "fault.bad_argument", 1);
			sk_sig_add(sk_mix(((uint64_t)di << 32) | ((uint64_t)(j1 + 1) << 8) | (uint64_t)(j2 + 1), 12));
			if (!common_post(d, out, "bad argument"))
				return;
			if (mem_only)
				continue;   /* the error class, leaks and released data are C09's; here the call only has to stay inside its buffers */
			if (rc == ERR_OK && in_class(ERR_OK, exp, n1 + n2))
				sk_count("probe.soft_variant_accepted", 1); /* hard-to-check \\expect condition: robustness only */
			else if (rc == ERR_OK)
			{
				snprintf(cls, sizeof(cls), "badarg_accepted:%s", d->name);
				sk_violate(out, cls, "%s: invalid variant %d%s returned ERR_OK", d->name, j1, j2 >= 0 ? " (with a second invalid argument)" : "");
			}
			else if (!in_class(rc, exp, n1 + n2))
			{
				snprintf(cls, sizeof(cls), "badarg_wrong_class:%s", d->name);
				sk_violate(out, cls, "%s: invalid variant %d returned %u, header names %u%s", d->name, j1,
					(unsigned)rc, (unsigned)exp[0], n1 + n2 > 1 ? " (or alternatives)" : "");
			}
			else if (sk_heap_live() != 0)
			{
				snprintf(cls, sizeof(cls), "leak_on_error:%s", d->name);
				sk_violate(out, cls, "%s: invalid variant %d, rc=%u, %ld block(s) left behind", d->name, j1, (unsigned)rc, sk_heap_live());
			}
			else if ((d->flags & FC_AUTH) && C.plain && C.dest && C.plain_len >= 4 &&
				has_window(C.dest, C.dest_len, C.plain, C.plain_len, C.plain_len >= 8 ? 8 : C.plain_len))
			{
				sk_count("probe.auth_failure_checked", 1);
				snprintf(cls, sizeof(cls), "released_on_auth_failure:%s", d->name);
				sk_violate(out, cls, "%s: variant %d failed with %u but the destination holds 8+ octets of the protected data",
					d->name, j1, (unsigned)rc);
			}
			else if ((d->flags & FC_AUTH) && C.plain && C.dest)
				sk_count("probe.auth_failure_checked", 1);
			if (!out->violated && (d->flags & FC_KEYOUT) && rc != ERR_OK)
			{
				/* a key-producing verification failed: whatever it left in its outputs was not
				   authenticated, so it may only be the caller's old content or a constant fill */
				int oi;
				for (oi = 0; oi < C.nouts && !out->violated; ++oi)
				{
					size_t q;
					for (q = 1; q < C.outs[oi].n; ++q)
						if (C.outs[oi].p[q] != C.outs[oi].p[0])
						{
							snprintf(cls, sizeof(cls), "released_on_auth_failure:%s", d->name);
							sk_violate(out, cls, "%s: variant %d failed with %u but output %d holds data (neither untouched nor cleared)",
								d->name, j1, (unsigned)rc, oi);
							break;
						}
				}
				sk_count("probe.outputs_after_failed_verification_checked", 1);
			}
		}
	}
	out->nops = (unsigned)e;
}

/* ---------------------------------------------------------------- C15 wipe */
#define SNAP_BYTES (8u << 20)
#define SNAP_MAX 8192
static octet snapbuf[2][SNAP_BYTES];
static struct { size_t off, size; int kind; } snaps[2][SNAP_MAX];
static unsigned nsn[2];
static size_t snapfill[2];
static int cursnap, snap_overflow;
static octet corpus[2][1 << 16];
static size_t corpus_n[2];
static octet rawsec[2][4096];
static size_t rawsec_n[2], rawsec_len[2][8];
static int rawsec_cnt[2];

static void on_release(void* p, size_t n, int kind)
{
	int s = cursnap;
	if (nsn[s] >= SNAP_MAX || snapfill[s] + n > SNAP_BYTES)
	{
		snap_overflow = 1;
		return;
	}
	snaps[s][nsn[s]].off = snapfill[s], snaps[s][nsn[s]].size = n, snaps[s][nsn[s]].kind = kind;
	memcpy(snapbuf[s] + snapfill[s], p, n);
	snapfill[s] += n, ++nsn[s];
}

static void save_corpus(int s)
{
	int i;
	corpus_n[s] = 0, rawsec_n[s] = 0, rawsec_cnt[s] = 0;
	for (i = 0; i < C.nouts; ++i)
		if (corpus_n[s] + C.outs[i].n + 1 <= sizeof(corpus[s]))
		{
			memcpy(corpus[s] + corpus_n[s], C.outs[i].p, C.outs[i].n);
			corpus_n[s] += C.outs[i].n;
			corpus[s][corpus_n[s]++] = 0x5A; /* separator */
		}
	for (i = 0; i < C.npubs; ++i)
		if (corpus_n[s] + C.pubs[i].n + 1 <= sizeof(corpus[s]))
		{
			memcpy(corpus[s] + corpus_n[s], C.pubs[i].p, C.pubs[i].n);
			corpus_n[s] += C.pubs[i].n;
			corpus[s][corpus_n[s]++] = 0x5A;
		}
	for (i = 0; i < C.nsecs; ++i)
		if (rawsec_n[s] + C.secs[i].n <= sizeof(rawsec[s]))
		{
			memcpy(rawsec[s] + rawsec_n[s], C.secs[i].p, C.secs[i].n);
			rawsec_len[s][rawsec_cnt[s]++] = C.secs[i].n;
			rawsec_n[s] += C.secs[i].n;
		}
}

/* 8 consecutive octets of a secret inside a released block.  A window of 8 equal octets
   identifies nothing: the degenerate secrets of the error variants (all 00, all FF) would
   "match" any block cleared with that constant, e.g. a wipe that ends in a zero fill. */
static int has_secret_window(const octet* hay, size_t hn, const octet* nee, size_t nn)
{
	size_t i, q;
	if (nn < 8 || hn < 8)
		return 0;
	for (i = 0; i + 8 <= nn; ++i)
	{
		for (q = 1; q < 8 && nee[i + q] == nee[i]; ++q);
		if (q == 8)
		{
			sk_count("probe.constant_secret_window_skipped", 1);
			continue;
		}
		if (memmem(hay, hn, nee + i, 8))
			return 1;
	}
	return 0;
}

static int scan_raw(int s, unsigned* blk, size_t* at)
{
	unsigned b;
	int i;
	size_t o = 0;
	for (i = 0; i < rawsec_cnt[s]; ++i)
	{
		for (b = 0; b < nsn[s]; ++b)
			if (has_secret_window(snapbuf[s] + snaps[s][b].off, snaps[s][b].size, rawsec[s] + o, rawsec_len[s][i]))
			{
				*blk = b, *at = 0;
				return 1;
			}
		o += rawsec_len[s][i];
	}
	return 0;
}

static const char* KN[] = { "freed", "released by realloc", "still allocated at return" };

static void run_wipe(const fc_desc* d, unsigned di, uint64_t seed, const sk_mask* mask, sk_result* out)
{
	uint64_t fill = sk_mix(seed, 1), ps = sk_mix(seed, 2), ss[2];
	sk_rng pr;
	long N, k = 0;
	int pers = 0, s;
	err_t rc[2];
	uint64_t tr[2];
	char cls[96];
	unsigned b;
	(void)mask;
	ss[0] = sk_mix(seed, 3), ss[1] = sk_mix(seed, 4);
	sk_rng_seed(&pr, sk_mix(seed, 9));
	/* N from a fault-free run */
	sk_heap_reset(fill);
	ctx_init(ps, ss[0]);
	d->gen(&C);
	sk_text(out, "function %s, argument variant %d", d->name, C.variant);
	rc[0] = do_call(d);
	N = sk_heap_allocs();
	if (!common_post(d, out, "fault-free"))
		return;
	if (rc[0] != ERR_OK)
	{
		sk_fault(out, "%s: generated valid call failed with %u (descriptor bug)", d->name, (unsigned)rc[0]);
		return;
	}
	/* exit selection: success, or the error exit behind allocation k, or a
	   descriptor-provided error variant (bad key, corrupted token, bad tape) */
	out->nops = 1;
	{
		int want_bad = -1;
		unsigned r = sk_below(&pr, 10);
		if (r < 3 || N == 0)
			k = 0;
		else if (r < 7)
			k = 1 + (long)sk_below(&pr, (uint32_t)N), pers = (int)sk_below(&pr, 2);
		if (r >= 7 && d->bad)
			want_bad = (int)sk_below(&pr, 12);
		snap_overflow = 0;
		sk_heap_on_release(on_release);
		for (s = 0; s < 2; ++s)
		{
			err_t exp[8];
			sk_heap_reset(fill);
			ctx_init(ps, ss[s]);
			d->gen(&C);
			if (want_bad >= 0 && d->bad(&C, want_bad, exp) == 0)
			{
				/* index beyond this descriptor's list: fold it into the list (6, 3, 1 variants) */
				static const int fold[3] = { 6, 3, 1 };
				int f;
				for (f = 0; f < 3; ++f)
				{
					sk_heap_reset(fill);
					ctx_init(ps, ss[s]);
					d->gen(&C);
					if (d->bad(&C, want_bad % fold[f], exp) != 0)
					{
						want_bad %= fold[f];
						break;
					}
				}
				if (f == 3)
				{
					want_bad = -1;
					sk_heap_reset(fill);
					ctx_init(ps, ss[s]);
					d->gen(&C);
				}
			}
			sk_wipe_normalise();
			cursnap = s, nsn[s] = 0, snapfill[s] = 0;
			sk_heap_arm();
			if (k)
				sk_heap_fail_at(k, pers);
			rc[s] = d->call(&C);
			sk_heap_disarm();
			tr[s] = sk_heap_trace();
			sk_heap_scan_live(on_release);
			save_corpus(s);
			if (!common_post(d, out, "wipe run"))
			{
				sk_heap_on_release(0);
				return;
			}
		}
		sk_heap_on_release(0);
		sk_text(out, "call %s (variant %d): exit %s k=%ld%s bad=%d -> rc=%u/%u, %u released blocks",
			d->name, C.variant, k ? "after failed allocation" : want_bad >= 0 ? "error variant" : "success",
			k, pers ? "+" : "", want_bad, (unsigned)rc[0], (unsigned)rc[1], nsn[0]);
		if (k)
			sk_count("fault.alloc_fail", 1);
		if (want_bad >= 0)
			sk_count("fault.error_variant", 1);
		if (k > 1)
			sk_count("probe.alloc_fault_after_secret_loaded", 1);
	}
	sk_dg_u64(&out->digest, rc[0]), sk_dg_u64(&out->digest, rc[1]);
	sk_dg_u64(&out->digest, nsn[0]);
	if (snap_overflow)
	{
		sk_fault(out, "%s: snapshot store overflow", d->name);
		return;
	}
	sk_sig_add(sk_mix(((uint64_t)di << 32) | (uint64_t)rc[0] << 8 | (uint64_t)(tr[0] & 0xFF), 13));
	sk_count("calls", 1);
	sk_count("released_blocks", nsn[0]);
	for (b = 0; b < nsn[0]; ++b)
		if (snaps[0][b].kind == 1)
			sk_count("probe.realloc_moved_block", 1);
	/* direct scan: the raw secret itself must never be in a released block */
	for (s = 0; s < 2; ++s)
	{
		size_t at;
		if (scan_raw(s, &b, &at))
		{
			snprintf(cls, sizeof(cls), "secret_in_released_block:%s", d->name);
			sk_violate(out, cls, "%s (rc=%u, failed alloc %ld): a %lu-octet block %s contains 8+ octets of the caller's secret",
				d->name, (unsigned)rc[s], k, (unsigned long)snaps[s][b].size, KN[snaps[s][b].kind]);
			return;
		}
	}
	/* differential */
	if (rc[0] != rc[1] || tr[0] != tr[1] || nsn[0] != nsn[1])
	{
		sk_count("probe.incomparable_pair", 1);
		return;
	}
	for (b = 0; b < nsn[0]; ++b)
	{
		const octet* x = snapbuf[0] + snaps[0][b].off;
		const octet* y = snapbuf[1] + snaps[1][b].off;
		size_t n = snaps[0][b].size, i = 0;
		if (snaps[1][b].size != n || snaps[1][b].kind != snaps[0][b].kind)
		{
			sk_count("probe.incomparable_pair", 1);
			return;
		}
		while (i < n)
		{
			size_t j;
			if (x[i] == y[i])
			{
				++i;
				continue;
			}
			/* maximal differing region, tolerating gaps of up to 3 equal octets */
			j = i + 1;
			for (;;)
			{
				size_t g = j;
				while (g < n && g < j + 4 && x[g] == y[g])
					++g;
				if (g < n && g < j + 4)
					j = g + 1;
				else
					break;
			}
			if (!(memmem(corpus[0], corpus_n[0], x + i, j - i) && memmem(corpus[1], corpus_n[1], y + i, j - i)))
			{
				snprintf(cls, sizeof(cls), "secret_residue:%s", d->name);
				sk_violate(out, cls, "%s (rc=%u, failed alloc %ld): block #%u of %lu octets %s differs between two secrets at [%lu,%lu) and is not public output",
					d->name, (unsigned)rc[0], k, b, (unsigned long)n, KN[snaps[0][b].kind], (unsigned long)i, (unsigned long)j);
				return;
			}
			sk_count("probe.difference_excused_as_public", 1);
			i = j;
		}
	}
	sk_count("compared_pairs", 1);
}

/* ---------------------------------------------------------------- C07 base */
/* The C stack is part of the environment too: before each of the two runs the
   region the callee's frames will occupy is filled with different seeded
   garbage, so an uninitialised automatic variable that influences a result
   shows up in the garbage differential like uninitialised heap memory does. */
__attribute__((noinline)) static void scribble_stack(uint64_t seed)
{
	volatile unsigned char pad[96 * 1024];
	sk_rng r;
	size_t i;
	sk_rng_seed(&r, seed);
	for (i = 0; i < sizeof(pad); i += 8)
	{
		uint64_t v = sk_u64(&r);
		size_t k;
		for (k = 0; k < 8; ++k)
			pad[i + k] = (unsigned char)(v >> (8 * k));
	}
}

static void run_base(const fc_desc* d, unsigned di, uint64_t seed, const sk_mask* mask, sk_result* out)
{
	uint64_t ps = sk_mix(seed, 2), ss = sk_mix(seed, 3);
	static octet keep[1 << 16];
	size_t keepn = 0;
	err_t rc[3];
	int v, i;
	char cls[96];
	(void)mask;
	/* runs 0 and 1: different seeded garbage; run 2: the stale image run 1 left
	   behind, in the heap and on the C stack (a repeated call in a long-lived process) */
	for (v = 0; v < 3; ++v)
	{
		if (v < 2)
			sk_heap_reset(sk_mix(seed, 100 + (uint64_t)v));
		else
			sk_heap_reset_stale();
		ctx_init(ps, ss);
		d->gen(&C);
		if (v == 0)
			sk_text(out, "function %s, argument variant %d", d->name, C.variant);
		if (v < 2)
			scribble_stack(sk_mix(seed, 200 + (uint64_t)v));
		rc[v] = do_call(d);
		if (!common_post(d, out, "baseline"))
			return;
		if (rc[v] != ERR_OK)
		{
			sk_fault(out, "%s: generated valid call failed with %u (descriptor bug, or a functional self-check of the descriptor failed)", d->name, (unsigned)rc[v]);
			return;
		}
		if (v == 0)
		{
			for (i = 0; i < C.nouts; ++i)
				if (keepn + C.outs[i].n <= sizeof(keep))
					memcpy(keep + keepn, C.outs[i].p, C.outs[i].n), keepn += C.outs[i].n;
			digest_outs(out, rc[0]);
			sk_text(out, "call %s (variant %d): rc=%u, %d outputs, %ld allocations; repeated with different heap and stack garbage, then with the stale image of this call",
				d->name, C.variant, (unsigned)rc[0], C.nouts, sk_heap_allocs());
		}
		else
		{
			size_t o = 0;
			for (i = 0; i < C.nouts; ++i)
				if (o + C.outs[i].n <= sizeof(keep))
				{
					if (memcmp(keep + o, C.outs[i].p, C.outs[i].n))
					{
						snprintf(cls, sizeof(cls), "uninitialised_influence:%s", d->name);
						sk_violate(out, cls, v == 1 ? "%s: output %d differs when only the garbage in fresh heap memory differs" :
							"%s: output %d differs when fresh memory holds the stale image of the previous identical call", d->name, i);
						return;
					}
					o += C.outs[i].n;
				}
		}
	}
	sk_count("calls", 1);
	sk_sig_add(sk_mix(((uint64_t)di << 32) | (uint64_t)C.variant << 8 | (uint64_t)(sk_heap_trace() & 0xFF), 14));
	out->nops = 0;
}

/* ---------------------------------------------------------------- dispatch */
static void add_table(const fc_desc* t, unsigned n)
{
	unsigned i;
	for (i = 0; i < n && nall < 400; ++i)
		all[nall++] = &t[i];
}

static void init(const sk_opts* o)
{
	const char* v = o->variant ? o->variant : "";
	const char* colon = strchr(v, ':');
	add_table(fc_belt, fc_belt_n);
	add_table(fc_misc, fc_misc_n);
	add_table(fc_bign, fc_bign_n);
	add_table(fc_proto, fc_proto_n);
	add_table(fc_math, fc_math_n);
	add_table(fc_math2, fc_math2_n);
	add_table(fc_ww, fc_ww_n);
	add_table(fc_util, fc_util_n);
	add_table(fc_other, fc_other_n);
	add_table(fc_der, fc_der_n);
	add_table(fc_params, fc_params_n);
	add_table(fc_rng, fc_rng_n);
	add_table(fc_sm, fc_sm_n);
	if (!strncmp(v, "alloc", 5)) mode = 0;
	else if (!strncmp(v, "badarg", 6)) mode = 1;
	else if (!strncmp(v, "badmem", 6)) mode = 1, mem_only = 1;
	else if (!strncmp(v, "wipe", 4)) mode = 2;
	else mode = 3;
	if (colon)
		only_name = colon + 1;
}

static void run(uint64_t seed, const sk_mask* mask, sk_result* out)
{
	sk_rng r;
	unsigned di, tries = 0;
	const fc_desc* d;
	sk_rng_seed(&r, seed);
	for (;;)
	{
		di = sk_below(&r, nall);
		d = all[di];
		if (only_name && strcmp(only_name, d->name))
		{
			if (++tries > 100000)
			{
				sk_fault(out, "no descriptor named %s", only_name);
				return;
			}
			continue;
		}
		if (mode == 2 && !(d->flags & FC_SECRET))
			continue;
		if (mode != 3 && (d->flags & FC_MATH))
			continue;
		if (mode == 1 && !d->bad)
			continue;
		if ((d->flags & FC_SLOW) && !only_name && sk_below(&r, mode == 2 ? 2 : 4))
			continue;
		break;
	}
	{
		char nm[64];
		snprintf(nm, sizeof(nm), "fn.%s", d->name);
		sk_count(nm, 1);
	}
	switch (mode)
	{
	case 0: run_alloc(d, di, seed, mask, out); break;
	case 1: run_badarg(d, di, seed, mask, out); break;
	case 2: run_wipe(d, di, seed, mask, out); break;
	default: run_base(d, di, seed, mask, out); break;
	}
	out->sig = 0;
}

static void summary(FILE* f)
{
	fprintf(f, ",\"descriptors\":%u", nall);
}

sk_engine sk_the_engine = { "faultcall", init, run, summary };
