/* Descriptors, arithmetic layer part 2 (C07): primes (pri.h), the remaining zz/pp
   entry points with a caller stack, qrPower, pure Montgomery rings, field and
   curve validators, curves over GF(2^m), sums of multiples.  Same rules as
   fc_math.c: every operand, object and stack is an exact-size block of the
   simulated heap (objects at _keep(), stacks at _deep()), nothing else. */
#include "fc.h"
#include <stdarg.h>
#include "bee2/core/mem.h"
#include "bee2/core/util.h"
#include "bee2/core/word.h"
#include "bee2/math/ww.h"
#include "bee2/math/zz.h"
#include "bee2/math/pp.h"
#include "bee2/math/pri.h"
#include "bee2/math/qr.h"
#include "bee2/math/zm.h"
#include "bee2/math/gfp.h"
#include "bee2/math/gf2.h"
#include "bee2/math/ec.h"
#include "bee2/math/ecp.h"
#include "bee2/math/ec2.h"
#include "bee2/crypto/bign.h"
#include "bee2/crypto/dstu.h"

#define W(n) ((n) * sizeof(word))

static size_t pick_n(fc_ctx* c, size_t lo, size_t hi)
{
	return lo + fc_below(c, (uint32_t)(hi - lo + 1));
}
static word* opnd(fc_ctx* c, size_t n, int top_nonzero, int odd)
{
	word* a = (word*)fc_pub(c, W(n ? n : 1));
	if (n && fc_below(c, 8) == 0)
		memset(a, 0xFF, W(n));
	if (n && top_nonzero && a[n - 1] == 0)
		a[n - 1] = 1;
	if (n && odd)
		a[0] |= 1;
	return a;
}
static void* stk(size_t deep) { return sk_alloc(deep ? deep : 1); }

/* a number for primality questions: a standard prime, a product of two word
   primes, a small number, or random odd */
static const char* const BN[3] = { "1.2.112.0.2.0.34.101.45.3.1", "1.2.112.0.2.0.34.101.45.3.2", "1.2.112.0.2.0.34.101.45.3.3" };
static word* pri_opnd(fc_ctx* c, size_t* pn)
{
	unsigned k = fc_below(c, 10);
	word* a;
	size_t n;
	if (k < 4)
	{
		bign_params p[1];
		size_t no;
		bignParamsStd(p, BN[fc_below(c, 3)]);
		no = p->l / 4, n = W_OF_O(no);
		a = (word*)fc_pub(c, W(n));
		wwFrom(a, (k & 1) ? p->q : p->p, no);
		if (k == 3)
			a[0] ^= 4;                  /* composite neighbour (checked offline) */
	}
	else if (k < 6)
	{
		n = 1;
		a = (word*)fc_pub(c, W(1));
		a[0] = k == 4 ? (word)fc_below(c, 300) : (a[0] | 1);
	}
	else
	{
		n = pick_n(c, 1, 10);
		a = opnd(c, n, 0, k != 9);
	}
	*pn = n;
	return a;
}

/* ------------------------------------------------------------------ pri */
static void gen_priIsSieved(fc_ctx* c)
{
	size_t n;
	c->a[1] = pri_opnd(c, &n), c->n[0] = n;
	c->n[1] = fc_below(c, 3) ? fc_below(c, (uint32_t)priBaseSize() + 1) : priBaseSize();
	c->a[0] = fc_out(c, sizeof(bool_t));
	c->a[3] = stk(priIsSieved_deep(c->n[1]));
	c->variant = (int)(n * 10000 + c->n[1]);
}
static err_t call_priIsSieved(fc_ctx* c) { *(bool_t*)c->a[0] = priIsSieved(c->a[1], c->n[0], c->n[1], c->a[3]); return ERR_OK; }
static void gen_priIsSmooth(fc_ctx* c)
{
	size_t n;
	word* a = pri_opnd(c, &n);
	c->a[1] = a, c->n[0] = n;
	if (fc_below(c, 2))
	{
		/* make it smooth: 2^i 3^j 5^k 7^l in the low word */
		word v = 1;
		unsigned i;
		for (i = fc_below(c, 12); i--;) v *= 3;
		for (i = fc_below(c, 6); i--;) v *= 5;
		for (i = fc_below(c, 4); i--;) v *= 7;
		wwSetZero(a, n), a[0] = v << fc_below(c, 3);
	}
	c->n[1] = fc_below(c, 3) ? fc_below(c, 64) : priBaseSize();
	c->a[0] = fc_out(c, sizeof(bool_t));
	c->a[3] = stk(priIsSmooth_deep(n));
	c->variant = (int)(n * 10000 + c->n[1]);
}
static err_t call_priIsSmooth(fc_ctx* c) { *(bool_t*)c->a[0] = priIsSmooth(c->a[1], c->n[0], c->n[1], c->a[3]); return ERR_OK; }
static void gen_priIsPrimeW(fc_ctx* c)
{
	word* a = (word*)fc_pub(c, sizeof(word));
	if (fc_below(c, 3) == 0) a[0] = (word)fc_below(c, 70000);
	c->a[1] = a;
	c->a[0] = fc_out(c, sizeof(bool_t));
	c->a[3] = stk(priIsPrimeW_deep());
	c->variant = 0;
}
static err_t call_priIsPrimeW(fc_ctx* c) { *(bool_t*)c->a[0] = priIsPrimeW(*(word*)c->a[1], c->a[3]); return ERR_OK; }
static void gen_priRMTest(fc_ctx* c)
{
	static const size_t it[] = { 0, 24, 40 };
	size_t n;
	c->a[1] = pri_opnd(c, &n), c->n[0] = n;
	c->n[1] = FC_PICK(c, it);
	c->a[0] = fc_out(c, sizeof(bool_t));
	c->a[3] = stk(priRMTest_deep(n));
	c->variant = (int)(n * 100 + c->n[1]);
}
static err_t call_priRMTest(fc_ctx* c) { *(bool_t*)c->a[0] = priRMTest(c->a[1], c->n[0], c->n[1], c->a[3]); return ERR_OK; }
static void gen_priIsPrime(fc_ctx* c)
{
	size_t n;
	c->a[1] = pri_opnd(c, &n), c->n[0] = n;
	c->a[0] = fc_out(c, sizeof(bool_t));
	c->a[3] = stk(priIsPrime_deep(n));
	c->variant = (int)n;
}
static err_t call_priIsPrime(fc_ctx* c) { *(bool_t*)c->a[0] = priIsPrime(c->a[1], c->n[0], c->a[3]); return ERR_OK; }
static void gen_priIsSGPrime(fc_ctx* c)
{
	size_t n;
	word* q = pri_opnd(c, &n);
	q[0] |= 1;
	if (n == 1 && q[0] == 1) q[0] = 11;      /* pre: odd, > 1 */
	if (fc_below(c, 4) == 0)
	{
		static const word sg[] = { 3, 5, 11, 23, 29, 41, 53, 83, 89, 113, 131, 1559, 2039 };
		wwSetZero(q, n), q[0] = FC_PICK(c, sg);
	}
	c->a[1] = q, c->n[0] = n;
	c->a[0] = fc_out(c, sizeof(bool_t));
	c->a[3] = stk(priIsSGPrime_deep(n));
	c->variant = (int)n;
}
static err_t call_priIsSGPrime(fc_ctx* c) { *(bool_t*)c->a[0] = priIsSGPrime(c->a[1], c->n[0], c->a[3]); return ERR_OK; }
static void gen_priNextPrimeW(fc_ctx* c)
{
	word* a = (word*)fc_pub(c, sizeof(word));
	unsigned k = fc_below(c, 4);
	if (k == 0) a[0] = (word)fc_below(c, 100);
	else if (k == 1) a[0] |= (word)1 << (B_PER_W - 1);
	else if (k == 2) a[0] = WORD_MAX - (word)fc_below(c, 64);
	c->a[1] = a;
	c->a[0] = fc_out(c, sizeof(word));
	c->a[4] = fc_out(c, sizeof(bool_t));
	c->a[3] = stk(priNextPrimeW_deep());
	c->variant = (int)k;
}
static err_t call_priNextPrimeW(fc_ctx* c)
{
	memset(c->a[0], 0, sizeof(word));
	*(bool_t*)c->a[4] = priNextPrimeW(c->a[0], *(word*)c->a[1], c->a[3]);
	if (!*(bool_t*)c->a[4])
		memset(c->a[0], 0, sizeof(word));   /* p is unspecified on failure */
	return ERR_OK;
}
static void gen_priNextPrime(fc_ctx* c)
{
	size_t n = pick_n(c, 1, 6);
	word* a = opnd(c, n, 1, 0);
	c->a[1] = a, c->n[0] = n;
	c->n[1] = fc_below(c, 2) ? 3 + fc_below(c, 60) : SIZE_MAX;        /* trials */
	if (c->n[1] == SIZE_MAX && n > 3)
		c->n[1] = 200;
	c->n[2] = fc_below(c, 3) ? fc_below(c, 128) : priBaseSize();          /* base_count */
	c->n[4] = 24;                                                         /* iter */
	c->n[5] = fc_below(c, 4) == 0;                                        /* in place */
	c->a[0] = fc_out(c, W(n));
	c->a[4] = fc_out(c, sizeof(bool_t));
	c->a[3] = stk(priNextPrime_deep(n, c->n[2]));
	c->variant = (int)(n * 1000 + c->n[2]);
}
static err_t call_priNextPrime(fc_ctx* c)
{
	word* p = (word*)c->a[0];
	size_t n = c->n[0];
	if (c->n[5])
	{
		wwCopy(p, c->a[1], n);
		*(bool_t*)c->a[4] = priNextPrime(p, p, n, c->n[1], c->n[2], c->n[4], c->a[3]);
	}
	else
	{
		wwSetZero(p, n);
		*(bool_t*)c->a[4] = priNextPrime(p, c->a[1], n, c->n[1], c->n[2], c->n[4], c->a[3]);
	}
	if (!*(bool_t*)c->a[4])
		wwSetZero(p, n);
	return ERR_OK;
}
/* base primes for the extensions */
static word* ext_base(fc_ctx* c, size_t* pn, size_t* bits)
{
	unsigned k = fc_below(c, 6);
	word* q;
	if (k < 3)
	{
		static const word sp[] = { 3, 5, 7, 65537, 2147483647u, 4294967291u };
		q = (word*)fc_pub(c, W(1));
		q[0] = FC_PICK(c, sp);
		*pn = 1;
	}
	else
	{
		bign_params p[1];
		size_t no;
		bignParamsStd(p, BN[k - 3]);
		no = p->l / 4, *pn = W_OF_O(no);
		q = (word*)fc_pub(c, W(*pn));
		wwFrom(q, p->q, no);
	}
	*bits = wwBitSize(q, *pn);
	return q;
}
static void gen_priExtendPrime(fc_ctx* c)
{
	size_t n, b, l;
	word* q = ext_base(c, &n, &b);
	l = b + 1 + fc_below(c, (uint32_t)b);          /* b + 1 <= l <= 2b */
	c->a[1] = q, c->n[0] = n, c->n[1] = l;
	c->n[2] = fc_below(c, 2) ? 1 + fc_below(c, 40) : 4 * l;                /* trials */
	c->n[4] = fc_below(c, 3) ? fc_below(c, 200) : priBaseSize();           /* base_count */
	c->a[0] = fc_out(c, W(W_OF_B(l)));
	c->a[4] = fc_out(c, sizeof(bool_t));
	c->a[3] = stk(priExtendPrime_deep(l, n, c->n[4]));
	c->variant = (int)(l * 10 + n);
}
static err_t call_priExtendPrime(fc_ctx* c)
{
	size_t m = W_OF_B(c->n[1]);
	wwSetZero(c->a[0], m);
	*(bool_t*)c->a[4] = priExtendPrime(c->a[0], c->n[1], c->a[1], c->n[0], c->n[2], c->n[4], fc_tape, c, c->a[3]);
	if (!*(bool_t*)c->a[4])
		wwSetZero(c->a[0], m);
	return ERR_OK;
}
static void gen_priExtendPrime2(fc_ctx* c)
{
	size_t n, b, l, m, ab;
	word* q = ext_base(c, &n, &b);
	word* a;
	/* a: m words, a[m-1] != 0, bits(q a) + 1 <= l <= 2 bits(q) */
	if (b < 4)
	{
		m = 1, a = (word*)fc_pub(c, W(1)), a[0] = 1;
	}
	else
	{
		size_t abits = 1 + fc_below(c, (uint32_t)(b - 2));   /* 1 .. b - 2 */
		m = W_OF_B(abits);
		a = (word*)fc_pub(c, W(m));
		wwTrimHi(a, m, abits);
		wwSetBit(a, abits - 1, 1);
	}
	ab = wwBitSize(a, m);
	/* bits(q a) <= b + ab */
	l = b + ab + 1;
	if (l < 2 * b)
		l += fc_below(c, (uint32_t)(2 * b - l + 1));
	if (l > 2 * b)
	{
		/* only with b < 4 */
		m = 1, a[0] = 1, ab = 1, l = 2 * b;
		if (l < b + 2)
			l = b + 2;
	}
	c->a[1] = q, c->n[0] = n, c->n[1] = l, c->a[2] = a, c->n[5] = m;
	c->n[2] = fc_below(c, 2) ? 1 + fc_below(c, 40) : 4 * l;
	c->n[4] = fc_below(c, 3) ? fc_below(c, 200) : priBaseSize();
	c->a[0] = fc_out(c, W(W_OF_B(l)));
	c->a[4] = fc_out(c, sizeof(bool_t));
	c->a[3] = stk(priExtendPrime2_deep(l, n, m, c->n[4]));
	c->variant = (int)(l * 100 + n * 10 + m);
}
static err_t call_priExtendPrime2(fc_ctx* c)
{
	size_t mw = W_OF_B(c->n[1]);
	wwSetZero(c->a[0], mw);
	*(bool_t*)c->a[4] = priExtendPrime2(c->a[0], c->n[1], c->a[1], c->n[0], c->a[2], c->n[5], c->n[2], c->n[4], fc_tape, c, c->a[3]);
	if (!*(bool_t*)c->a[4])
		wwSetZero(c->a[0], mw);
	return ERR_OK;
}

/* ---------------------------------------------------------- zz, the rest */
static void g_mod(fc_ctx* c, int odd, size_t lo)
{
	word* m;
	c->n[0] = pick_n(c, lo, 20), c->variant = (int)c->n[0];
	m = opnd(c, c->n[0], 1, odd);
	m[c->n[0] - 1] |= (word)1 << (B_PER_W - 1);
	c->a[2] = m;
	c->a[1] = opnd(c, c->n[0], 0, 0), c->a[5] = opnd(c, c->n[0], 0, 0);
	((word*)c->a[1])[c->n[0] - 1] >>= 1, ((word*)c->a[5])[c->n[0] - 1] >>= 1;
	c->a[0] = fc_out(c, W(c->n[0]));
}
static void gen_zzIsCoprime(fc_ctx* c)
{
	c->n[0] = pick_n(c, 1, 16), c->n[1] = pick_n(c, 1, 16);
	c->a[1] = opnd(c, c->n[0], 0, 0), c->a[2] = opnd(c, c->n[1], 0, 0);
	if (wwIsZero(c->a[1], c->n[0])) ((word*)c->a[1])[0] = 6;
	if (wwIsZero(c->a[2], c->n[1])) ((word*)c->a[2])[0] = 35;
	c->a[0] = fc_out(c, sizeof(bool_t));
	c->a[3] = stk(zzIsCoprime_deep(c->n[0], c->n[1]));
	c->variant = (int)(c->n[0] * 100 + c->n[1]);
}
static err_t call_zzIsCoprime(fc_ctx* c) { *(bool_t*)c->a[0] = zzIsCoprime(c->a[1], c->n[0], c->a[2], c->n[1], c->a[3]); return ERR_OK; }
static void gen_zzMulWMod(fc_ctx* c) { g_mod(c, 0, 1); c->a[3] = stk(zzMulWMod_deep(c->n[0])); }
static err_t call_zzMulWMod(fc_ctx* c) { zzMulWMod(c->a[0], c->a[1], ((word*)c->a[5])[0], c->a[2], c->n[0], c->a[3]); return ERR_OK; }
static void gen_zzAlmostInvMod(fc_ctx* c)
{
	g_mod(c, 1, 1);
	if (wwIsZero(c->a[1], c->n[0])) ((word*)c->a[1])[0] = 1;
	c->a[4] = fc_out(c, sizeof(size_t));
	c->a[3] = stk(zzAlmostInvMod_deep(c->n[0]));
}
static err_t call_zzAlmostInvMod(fc_ctx* c) { *(size_t*)c->a[4] = zzAlmostInvMod(c->a[0], c->a[1], c->a[2], c->n[0], c->a[3]); return ERR_OK; }
static void g_red(fc_ctx* c, int odd, size_t lo)
{
	g_mod(c, odd, lo);
	c->nouts = 0;
	c->a[0] = fc_out(c, W(2 * c->n[0]));
	sk_bytes(&c->rng, c->a[0], W(2 * c->n[0]));
}
static void gen_zzRed(fc_ctx* c) { g_red(c, 0, 1); c->a[3] = stk(zzRed_deep(c->n[0])); }
static err_t call_zzRed(fc_ctx* c) { zzRed(c->a[0], c->a[2], c->n[0], c->a[3]); return ERR_OK; }
static void gen_ppRed(fc_ctx* c) { g_red(c, 0, 1); c->a[3] = stk(ppRed_deep(c->n[0])); }
static err_t call_ppRed(fc_ctx* c) { ppRed(c->a[0], c->a[2], c->n[0], c->a[3]); return ERR_OK; }
static void g_crand(fc_ctx* c)
{
	word* m;
	g_red(c, 1, 2);
	m = (word*)c->a[2];
	memset(m, 0xFF, W(c->n[0]));
	m[0] = (word)0 - (word)(1 + 2 * fc_below(c, 1u << 20));   /* B^n - c, c odd so that mod is odd */
	if (fc_below(c, 4) == 0)
		m[0] = 1;                                             /* c = B - 1 */
}
static void gen_zzRedCrand(fc_ctx* c) { g_crand(c); c->a[3] = stk(zzRedCrand_deep(c->n[0])); }
static err_t call_zzRedCrand(fc_ctx* c) { zzRedCrand(c->a[0], c->a[2], c->n[0], c->a[3]); return ERR_OK; }
static void gen_zzRedCrandMont(fc_ctx* c)
{
	g_crand(c);
	((word*)c->a[0])[2 * c->n[0] - 1] >>= 1;    /* a < mod * R */
	c->a[3] = stk(zzRedCrandMont_deep(c->n[0]));
}
static err_t call_zzRedCrandMont(fc_ctx* c)
{
	zzRedCrandMont(c->a[0], c->a[2], c->n[0], wordNegInv(((word*)c->a[2])[0]), c->a[3]);
	return ERR_OK;
}
static void gen_zzPowerModW(fc_ctx* c)
{
	word* v = (word*)fc_pub(c, W(3));
	unsigned k = fc_below(c, 4);
	if (v[2] == 0 || k == 0) v[2] = 1 + (word)fc_below(c, 1000);
	if (k == 1) v[2] = WORD_MAX;
	if (k == 2) v[1] = (word)fc_below(c, 3);
	c->a[1] = v;
	c->a[0] = fc_out(c, sizeof(word));
	c->a[3] = stk(zzPowerModW_deep());
	c->variant = (int)k;
}
static err_t call_zzPowerModW(fc_ctx* c)
{
	word* v = (word*)c->a[1];
	*(word*)c->a[0] = zzPowerModW(v[0], v[1], v[2], c->a[3]);
	return ERR_OK;
}
static void gen_ppMulW(fc_ctx* c)
{
	c->n[0] = pick_n(c, 0, 24), c->variant = (int)c->n[0];
	c->a[1] = opnd(c, c->n[0], 0, 0), c->a[2] = opnd(c, 1, 0, 0);
	c->a[0] = fc_out(c, W(c->n[0] ? c->n[0] : 1));
	c->a[4] = fc_out(c, sizeof(word));
	c->a[3] = stk(utilMax(2, ppMulW_deep(c->n[0]), ppAddMulW_deep(c->n[0])));
}
static err_t call_ppMulW(fc_ctx* c)
{
	word carry;
	memset(c->a[0], 0, W(c->n[0] ? c->n[0] : 1));
	carry = ppMulW(c->a[0], c->a[1], c->n[0], *(word*)c->a[2], c->a[3]);
	carry ^= ppAddMulW(c->a[0], c->a[1], c->n[0], ~*(word*)c->a[2], c->a[3]);
	*(word*)c->a[4] = carry;
	return ERR_OK;
}


/* ------------------------------------- fast reductions modulo tri-/pentanomials */
static void gen_ppRedFast(fc_ctx* c)
{
	static const size_t T[][4] = { {191, 9, 0, 0}, {233, 74, 0, 0}, {409, 87, 0, 0}, {127, 63, 0, 0}, {257, 12, 0, 0},
		{163, 7, 6, 3}, {283, 12, 7, 5}, {571, 10, 5, 2} };
	unsigned k = fc_below(c, 8);
	size_t m = T[k][0], n = W_OF_B(m);
	word* a = (word*)fc_pub(c, W(2 * n));
	/* a product of two elements: degree at most 2m - 2 */
	wwTrimHi(a, 2 * n, 2 * m - 1);
	if (fc_below(c, 6) == 0)
		wwSetZero(a, 2 * n), wwSetBit(a, 2 * m - 2, 1);
	c->a[1] = a, c->n[0] = m, c->n[1] = k;
	c->a[2] = fc_raw(c, 4 * sizeof(size_t));
	memcpy(c->a[2], T[k], 4 * sizeof(size_t));
	c->a[0] = fc_out(c, W(n));
	c->variant = (int)m;
}
static err_t call_ppRedFast(fc_ctx* c)
{
	size_t m = c->n[0], n = W_OF_B(m);
	const size_t* t = (const size_t*)c->a[2];
	word* a = (word*)sk_alloc(W(2 * n));
	word* b = (word*)sk_alloc(W(2 * n + 1));
	word* mod = (word*)sk_alloc(W(n + 1));
	size_t mn = W_OF_B(m + 1);
	wwCopy(a, c->a[1], 2 * n);
	if (t[2])
	{
		pp_pentanom_st p;
		p.m = t[0], p.k = t[1], p.l = t[2], p.l1 = t[3];
		ppRedPentanomial(a, &p);
	}
	else
	{
		pp_trinom_st p;
		p.m = t[0], p.k = t[1];
		ppRedTrinomial(a, &p);
	}
	wwCopy(c->a[0], a, n);
	/* against the general division */
	wwSetZero(mod, n + 1);
	wwSetBit(mod, m, 1), wwSetBit(mod, t[1], 1), wwSetBit(mod, 0, 1);
	if (t[2])
		wwSetBit(mod, t[2], 1), wwSetBit(mod, t[3], 1);
	wwSetZero(b, 2 * n + 1);
	ppMod(b, c->a[1], 2 * n, mod, mn, stk(ppMod_deep(2 * n, mn)));
	if (!wwEq(b, a, n))
		return ERR_BAD_LOGIC;
	return ERR_OK;
}

/* ---------------------------------------------------- rings: power, Montgomery */
static void gen_qrPower(fc_ctx* c)
{
	static const size_t nos[] = { 1, 8, 9, 16, 24, 32, 33, 48, 64 };
	size_t no = FC_PICK(c, nos), n = W_OF_O(no);
	octet* mod = fc_pub(c, no);
	mod[no - 1] |= 0x80;
	if (fc_below(c, 2)) mod[0] |= 1;
	c->a[2] = mod, c->n[0] = no;
	c->a[10] = sk_alloc(zmCreate_keep(no));
	c->a[3] = stk(zmCreate_deep(no));
	c->a[1] = fc_pub(c, no);
	((octet*)c->a[1])[no - 1] &= 0x7F;
	c->n[1] = pick_n(c, 0, n + 1);
	c->a[5] = opnd(c, c->n[1], 0, 0);
	c->a[0] = fc_out(c, no);
	c->a[6] = sk_alloc(W(n)), c->a[7] = sk_alloc(W(n));
	c->variant = (int)(no * 100 + c->n[1]);
}
static err_t call_qrPower(fc_ctx* c)
{
	qr_o* r = (qr_o*)c->a[10];
	size_t no = c->n[0];
	void* st;
	zmCreate(r, c->a[2], no, c->a[3]);
	st = stk(r->deep);
	memset(c->a[0], 0, no);
	if (!qrFrom(c->a[6], c->a[1], r, st))
		return ERR_OK;
	st = stk(qrPower_deep(r->n, c->n[1], r->deep));
	qrPower(c->a[7], c->a[6], c->a[5], c->n[1], r, st);
	st = stk(r->deep);
	qrTo(c->a[0], c->a[7], r, st);
	return ERR_OK;
}
static void gen_zmMont(fc_ctx* c)
{
	static const size_t nos[] = { 1, 7, 8, 9, 16, 24, 32, 33, 80, 96 };
	size_t no = FC_PICK(c, nos), n = W_OF_O(no);
	octet* mod = fc_pub(c, no);
	mod[no - 1] |= 0x80, mod[0] |= 1;
	c->a[2] = mod, c->n[0] = no;
	/* R = 2^l with mod < R <= B^n (zm.c asserts exactly this; the header said B^n <= R
	   until the "fix:" commit that corrected the comment) */
	c->n[1] = 8 * no + fc_below(c, (uint32_t)(n * B_PER_W - 8 * no + 1));
	c->a[10] = sk_alloc(zmMontCreate_keep(no));
	c->a[3] = stk(zmMontCreate_deep(no));
	c->a[1] = fc_pub(c, no), c->a[5] = fc_pub(c, no);
	((octet*)c->a[1])[no - 1] &= 0x7F, ((octet*)c->a[5])[no - 1] &= 0x7F;
	c->a[0] = fc_out(c, no);
	c->a[6] = sk_alloc(W(n)), c->a[7] = sk_alloc(W(n)), c->a[8] = sk_alloc(W(n));
	c->variant = (int)(no * 10 + c->n[1] % 10);
}
static err_t call_zmMont(fc_ctx* c)
{
	qr_o* r = (qr_o*)c->a[10];
	size_t no = c->n[0];
	void* st;
	zmMontCreate(r, c->a[2], no, c->n[1], c->a[3]);
	st = stk(r->deep);
	memset(c->a[0], 0, no);
	if (!qrFrom(c->a[6], c->a[1], r, st) || !qrFrom(c->a[7], c->a[5], r, st))
		return ERR_OK;
	qrMul(c->a[8], c->a[6], c->a[7], r, st);
	qrSqr(c->a[6], c->a[8], r, st);
	/* inversion is for units only */
	if (!qrIsZero(c->a[6], r) && zzIsCoprime(c->a[6], r->n, r->mod, r->n, stk(zzIsCoprime_deep(r->n, r->n))))
		qrInv(c->a[7], c->a[6], r, st), qrMul(c->a[8], c->a[7], c->a[8], r, st);
	/* (x / y) * y = x for a unit y; x - y = x + (-y) */
	if (!qrIsZero(c->a[7], r) && zzIsCoprime(c->a[7], r->n, r->mod, r->n, stk(zzIsCoprime_deep(r->n, r->n))))
	{
		word* q = (word*)sk_alloc(W(r->n));
		word* p2 = (word*)sk_alloc(W(r->n));
		qrDiv(q, c->a[8], c->a[7], r, st);
		qrMul(p2, q, c->a[7], r, st);
		if (!wwEq(p2, c->a[8], r->n))
			return ERR_BAD_LOGIC;
	}
	{
		word* d1 = (word*)sk_alloc(W(r->n));
		word* d2 = (word*)sk_alloc(W(r->n));
		qrSub(d1, c->a[8], c->a[7], r);
		qrNeg(d2, c->a[7], r);
		qrAdd(d2, d2, c->a[8], r);
		if (!wwEq(d1, d2, r->n))
			return ERR_BAD_LOGIC;
	}
	st = stk(qrPower_deep(r->n, r->n, r->deep));
	qrPower(c->a[6], c->a[8], c->a[7], r->n, r, st);
	qrTo(c->a[0], c->a[6], r, st);
	return ERR_OK;
}

/* ------------------------------------------------- GF(p): validators, SWU, sums */
static void gen_ecp2(fc_ctx* c)
{
	bign_params* p = (bign_params*)fc_raw(c, sizeof(bign_params));
	size_t no, n;
	bignParamsStd(p, BN[fc_below(c, 3)]);
	no = p->l / 4, n = W_OF_O(no);
	c->a[10] = p, c->n[0] = no;
	c->a[11] = sk_alloc(gfpCreate_keep(no));
	c->a[12] = sk_alloc(ecpCreateJ_keep(n));
	c->n[1] = pick_n(c, 1, n + 1), c->n[2] = pick_n(c, 1, n + 1), c->n[4] = pick_n(c, 1, 2);
	c->a[1] = opnd(c, c->n[1], 0, 0), c->a[2] = opnd(c, c->n[2], 0, 0), c->a[5] = opnd(c, c->n[4], 0, 1);
	c->a[6] = fc_pub(c, no);
	((octet*)c->a[6])[no - 1] &= 0x7F;
	c->n[5] = fc_below(c, 8);                      /* which parameter to spoil for the validators */
	c->a[0] = fc_out(c, 2 * no);
	c->a[4] = fc_out(c, 2 * no);
	c->a[7] = fc_out(c, sizeof(int) * 12);
	c->variant = (int)(p->l * 10 + c->n[5]);
}
static err_t call_ecp2(fc_ctx* c)
{
	bign_params* p = (bign_params*)c->a[10];
	qr_o* f = (qr_o*)c->a[11];
	ec_o* ec = (ec_o*)c->a[12];
	size_t no = c->n[0], n = W_OF_O(no);
	int* fl = (int*)c->a[7];
	word* pt = (word*)sk_alloc(W(2 * n));
	word* pt2 = (word*)sk_alloc(W(2 * n));
	word* pt3 = (word*)sk_alloc(W(2 * n));
	word* t = (word*)sk_alloc(W(n));
	void* st;
	memset(fl, 0, sizeof(int) * 12);
	memset(c->a[0], 0, 2 * no), memset(c->a[4], 0, 2 * no);
	/* spoiled descriptions are what validators exist for */
	if (c->n[5] == 1) p->b[0] ^= 1;
	if (c->n[5] == 2) p->yG[0] ^= 1;
	if (c->n[5] == 3) p->q[0] ^= 2;
	st = stk(gfpCreate_deep(no));
	if (!gfpCreate(f, p->p, no, st))
		return ERR_OK;
	st = stk(gfpIsValid_deep(n));
	fl[0] = gfpIsValid(f, st);
	st = stk(ecpCreateJ_deep(n, f->deep));
	if (!ecpCreateJ(ec, f, p->a, p->b, st))
		return ERR_OK;
	st = stk(ecCreateGroup_deep(f->deep));
	if (!ecCreateGroup(ec, 0, p->yG, p->q, no, 1, st))
		return ERR_OK;
	st = stk(ecpIsValid_deep(n, f->deep));
	fl[1] = ecpIsValid(ec, st);
	st = stk(ecpSeemsValidGroup_deep(n, f->deep));
	fl[2] = ecpSeemsValidGroup(ec, st);
	st = stk(ecpIsSafeGroup_deep(n));
	fl[3] = ecpIsSafeGroup(ec, 1 + fc_below(c, 50), st);
	if (c->n[5] >= 1 && c->n[5] <= 3)
		return ERR_OK;
	/* SWU: field element -> point */
	st = stk(f->deep);
	if (qrFrom(t, c->a[6], f, st))
	{
		st = stk(ecpSWU_deep(n, f->deep));
		ecpSWU(pt, t, ec, st);
		st = stk(ecpIsOnA_deep(n, f->deep));
		fl[4] = ecpIsOnA(pt, ec, st);
	}
	else
		wwCopy(pt, ec->base, 2 * n);
	/* order, multiples, sums */
	st = stk(ecHasOrderA_deep(n, ec->d, ec->deep, n));
	fl[5] = ecHasOrderA(ec->base, ec, ec->order, n, st);
	fl[6] = ecHasOrderA(pt, ec, ec->order, n, st);
	st = stk(ecHasOrderA_deep(n, ec->d, ec->deep, c->n[4]));
	fl[7] = ecHasOrderA(ec->base, ec, c->a[5], c->n[4], st);
	st = stk(ecAddMulA_deep(n, ec->d, ec->deep, 2, c->n[1], c->n[2]));
	fl[8] = ecAddMulA(pt2, ec, st, 2, ec->base, (const word*)c->a[1], c->n[1], pt, (const word*)c->a[2], c->n[2]);
	st = stk(ecAddMulA_deep(n, ec->d, ec->deep, 3, c->n[1], c->n[2], c->n[4]));
	fl[9] = ecAddMulA(pt3, ec, st, 3, ec->base, (const word*)c->a[1], c->n[1], pt, (const word*)c->a[2], c->n[2], pt, (const word*)c->a[5], c->n[4]);
	if (fl[8] && fl[9])
	{
		st = stk(ecpSubAA_deep(n, f->deep));
		fl[10] = ecpSubAA(pt, pt3, pt2, ec, st);
		ecpNegA(pt2, pt2, ec);
	}
	st = stk(f->deep);
	if (fl[8])
		qrTo((octet*)c->a[0], ecX(pt2), f, st), qrTo((octet*)c->a[0] + no, ecY(pt2, n), f, st);
	if (fl[10])
		qrTo((octet*)c->a[4], ecX(pt), f, st), qrTo((octet*)c->a[4] + no, ecY(pt, n), f, st);
	/* projective interface: 3 G by tripling equals 3 G by multiplication; T - (-T) = 2 T */
	{
		word* P3 = (word*)sk_alloc(W(ec->d * n));
		word* T = (word*)sk_alloc(W(ec->d * n));
		word* N = (word*)sk_alloc(W(ec->d * n));
		word* a3 = (word*)sk_alloc(W(2 * n));
		word* m3 = (word*)sk_alloc(W(2 * n));
		word* a6 = (word*)sk_alloc(W(2 * n));
		word k[1];
		st = stk(ec->deep);
		ecFromA(P3, ec->base, ec, st);
		ec->tpl(T, P3, ec, st);   /* ec.h has no ecTpl() macro for the tpl interface */
		ecNeg(N, T, ec, st);
		ecSub(P3, T, N, ec, st);
		if (!ecToA(a3, T, ec, st) || !ecToA(a6, P3, ec, st))
			return ERR_BAD_LOGIC;
		k[0] = 3;
		st = stk(ecMulA_deep(n, ec->d, ec->deep, 1));
		if (!ecMulA(m3, ec->base, ec, k, 1, st) || !wwEq(m3, a3, 2 * n))
			return ERR_BAD_LOGIC;
		k[0] = 6;
		if (!ecMulA(m3, ec->base, ec, k, 1, st) || !wwEq(m3, a6, 2 * n))
			return ERR_BAD_LOGIC;
		fl[11] = 1;
	}
	return ERR_OK;
}


/* curves over GF(p) that own a point of order 2 or 3: the prime and (for order 2)
   the coefficient a are the standard ones, b (and a) are solved for so that the
   chosen point lies on the curve; ecMulA/ecAddMulA then meet O in their tables */
static void gen_ecp_tors(fc_ctx* c)
{
	bign_params p[1];
	octet* po = fc_raw(c, 72);
	octet* ao = fc_raw(c, 72);
	size_t no, n;
	unsigned k = fc_below(c, 8);
	memset(po, 0, 72), memset(ao, 0, 72);
	if (k >= 5)
	{
		/* fields of one and two words (three and four in the 32-bit configuration): 2^61 - 1, 2^89 - 1,
		   2^127 - 1.  There the field multiplication uses all of f->deep, so a curve stack that is a
		   few words short has no slack to hide in (seed C07-k) */
		no = k == 5 ? 8 : k == 6 ? 12 : 16;
		memset(po, 0xFF, no);
		po[no - 1] = k == 5 ? 0x1F : k == 6 ? 0x01 : 0x7F;
		sk_bytes(&c->rng, ao, no - 1);
	}
	else if (k < 3)
	{
		bignParamsStd(p, BN[k]);
		no = p->l / 4;
		memcpy(po, p->p, no), memcpy(ao, p->a, no);
	}
	else
	{
		/* primes that do not fill their top word: 2^255 - 19 and 2^521 - 1 */
		no = k == 3 ? 32 : 66;
		memset(po, 0xFF, no);
		if (k == 3)
			po[0] = 0xED, po[31] = 0x7F;
		else
			po[65] = 0x01;
		sk_bytes(&c->rng, ao, no - 1);
	}
	n = W_OF_O(no);
	c->a[13] = po, c->a[14] = ao, c->n[0] = no;
	c->a[11] = sk_alloc(gfpCreate_keep(no));
	c->a[12] = sk_alloc(ecpCreateJ_keep(n));
	c->n[6] = 2 + fc_below(c, 2);                  /* order of the point */
	c->a[6] = fc_pub(c, no), c->a[8] = fc_pub(c, no);
	((octet*)c->a[6])[no - 1] &= 0x7F, ((octet*)c->a[8])[no - 1] &= 0x7F;
	if (k >= 3)
		((octet*)c->a[6])[no - 1] = 0, ((octet*)c->a[8])[no - 1] = 0;
	((octet*)c->a[6])[0] |= 1, ((octet*)c->a[8])[1] |= 1;
	c->n[1] = pick_n(c, 1, n + 1), c->n[2] = pick_n(c, 1, 2);
	c->a[1] = opnd(c, c->n[1], 0, 0), c->a[2] = opnd(c, c->n[2], 0, 0);
	c->a[0] = fc_out(c, 2 * no);
	c->a[4] = fc_out(c, 2 * no);
	c->a[7] = fc_out(c, sizeof(int) * 8);
	c->variant = (int)(no * 10 + c->n[6]);
}
static err_t call_ecp_tors(fc_ctx* c)
{
	const octet* po = (const octet*)c->a[13];
	qr_o* f = (qr_o*)c->a[11];
	ec_o* ec = (ec_o*)c->a[12];
	size_t no = c->n[0], n = W_OF_O(no);
	int* fl = (int*)c->a[7];
	word* P = (word*)sk_alloc(W(n));
	word* A = (word*)sk_alloc(W(n));
	word* B = (word*)sk_alloc(W(n));
	word* x0 = (word*)sk_alloc(W(n));
	word* y0 = (word*)sk_alloc(W(n));
	word* t1 = (word*)sk_alloc(W(n));
	word* t2 = (word*)sk_alloc(W(n));
	word* three = (word*)sk_alloc(W(n));
	word* pt = (word*)sk_alloc(W(2 * n));
	word* pt2 = (word*)sk_alloc(W(2 * n));
	word* tors = (word*)sk_alloc(W(2 * n));
	octet* ao = (octet*)sk_alloc(no);
	octet* bo = (octet*)sk_alloc(no);
	octet* xo = (octet*)sk_alloc(no);
	octet* yo = (octet*)sk_alloc(no);
	word q[1];
	void* zs = stk(utilMax(2, zzMulMod_deep(n), zzDivMod_deep(n)));
	void* st;
	memset(fl, 0, sizeof(int) * 8);
	memset(c->a[0], 0, 2 * no), memset(c->a[4], 0, 2 * no);
	wwFrom(P, po, no);
	wwFrom(A, c->a[14], no);
	if (c->n[6] == 2)
	{
		/* (x0, 0) on the curve: b = -(x0^3 + a x0) */
		wwFrom(x0, c->a[6], no), wwSetZero(y0, n);
		zzSqrMod(t1, x0, P, n, zs);
		zzAddMod(t1, t1, A, P, n);
		zzMulMod(t1, t1, x0, P, n, zs);
		zzNegMod(B, t1, P, n);
	}
	else
	{
		/* 3 (x0, y0) = O  <=>  lambda^2 = 3 x0 for the tangent slope lambda:
		   x0 = lambda^2 / 3, a = 2 y0 lambda - 3 x0^2, b = y0^2 - x0^3 - a x0 */
		word* lam = t2;
		wwFrom(lam, c->a[6], no), wwFrom(y0, c->a[8], no);
		wwSetW(three, n, 3);
		zzSqrMod(t1, lam, P, n, zs);
		zzDivMod(x0, t1, three, P, n, zs);
		zzMulMod(A, y0, lam, P, n, zs);
		zzDoubleMod(A, A, P, n);
		zzSqrMod(t1, x0, P, n, zs);
		zzMulMod(t1, t1, three, P, n, zs);
		zzSubMod(A, A, t1, P, n);
		zzSqrMod(B, y0, P, n, zs);
		zzSqrMod(t1, x0, P, n, zs);
		zzAddMod(t1, t1, A, P, n);
		zzMulMod(t1, t1, x0, P, n, zs);
		zzSubMod(B, B, t1, P, n);
	}
	if (wwIsZero(A, n) || wwIsZero(B, n))
		return ERR_OK;
	wwTo(ao, no, A), wwTo(bo, no, B), wwTo(xo, no, x0), wwTo(yo, no, y0);
	st = stk(gfpCreate_deep(no));
	if (!gfpCreate(f, po, no, st))
		return ERR_OK;
	st = stk(ecpCreateJ_deep(n, f->deep));
	if (!ecpCreateJ(ec, f, ao, bo, st))
		return ERR_OK;
	st = stk(ecpIsValid_deep(n, f->deep));
	if (!ecpIsValid(ec, st))
		return ERR_OK;                           /* singular: not a curve */
	st = stk(ecCreateGroup_deep(f->deep));
	if (!ecCreateGroup(ec, xo, yo, po, no, 1, st))
		return ERR_OK;
	st = stk(f->deep);
	if (!qrFrom(ecX(tors), xo, f, st) || !qrFrom(ecY(tors, n), yo, f, st))
		return ERR_BAD_LOGIC;
	st = stk(ecpIsOnA_deep(n, f->deep));
	fl[0] = ecpIsOnA(tors, ec, st);
	if (!fl[0])
		return ERR_BAD_LOGIC;
	q[0] = (word)c->n[6];
	st = stk(ecHasOrderA_deep(n, ec->d, ec->deep, 1));
	fl[1] = ecHasOrderA(tors, ec, q, 1, st);
	if (!fl[1])
		return ERR_BAD_LOGIC;
	sk_count(c->n[6] == 2 ? "probe.point_of_order_2_multiplied" : "probe.point_of_order_3_multiplied", 1);
	st = stk(ecMulA_deep(n, ec->d, ec->deep, c->n[1]));
	fl[2] = ecMulA(pt, tors, ec, c->a[1], c->n[1], st);
	st = stk(ecAddMulA_deep(n, ec->d, ec->deep, 2, c->n[1], c->n[2]));
	fl[3] = ecAddMulA(pt2, ec, st, 2, tors, (const word*)c->a[1], c->n[1], tors, (const word*)c->a[2], c->n[2]);
	st = stk(f->deep);
	if (fl[2])
		qrTo((octet*)c->a[0], ecX(pt), f, st), qrTo((octet*)c->a[0] + no, ecY(pt, n), f, st);
	if (fl[3])
		qrTo((octet*)c->a[4], ecX(pt2), f, st), qrTo((octet*)c->a[4] + no, ecY(pt2, n), f, st);
	/* general-a tripling (ecpTplJ; the standard curves with a = -3 use ecpTplJA3): 3 T = O for the
	   point of order 3, 3 T = T for the point of order 2 */
	{
		word* P3 = (word*)sk_alloc(W(ec->d * n));
		word* T3 = (word*)sk_alloc(W(ec->d * n));
		word* af = (word*)sk_alloc(W(2 * n));
		int aff;
		st = stk(ec->deep);
		ecFromA(P3, tors, ec, st);
		ec->tpl(T3, P3, ec, st);
		aff = ecToA(af, T3, ec, st);
		if (c->n[6] == 3 ? aff : (!aff || !wwEq(af, tors, 2 * n)))
			return ERR_BAD_LOGIC;
	}
	/* the degenerate branches of the mixed operations, on a stack of exactly ec->deep:
	   P + P through ecAddA (same point -> doubling), P - (-P) through ecSubA, and ecDbl agree */
	{
		word* PJ = (word*)sk_alloc(W(ec->d * n));
		word* R1 = (word*)sk_alloc(W(ec->d * n));
		word* R2 = (word*)sk_alloc(W(ec->d * n));
		word* R3 = (word*)sk_alloc(W(ec->d * n));
		word* ng = (word*)sk_alloc(W(2 * n));
		word* a1 = (word*)sk_alloc(W(2 * n));
		word* a2 = (word*)sk_alloc(W(2 * n));
		word* a3 = (word*)sk_alloc(W(2 * n));
		int f1, f2, f3;
		st = stk(ec->deep);
		ecFromA(PJ, tors, ec, st);
		wwCopy(ng, tors, 2 * n);
		zzNegMod(ecY(ng, n), ecY(tors, n), f->mod, n);
		ecAddA(R1, PJ, tors, ec, st);
		ecSubA(R2, PJ, ng, ec, st);
		ecDbl(R3, PJ, ec, st);
		f1 = ecToA(a1, R1, ec, st), f2 = ecToA(a2, R2, ec, st), f3 = ecToA(a3, R3, ec, st);
		if (f1 != f3 || f2 != f3 || (f3 && (!wwEq(a1, a3, 2 * n) || !wwEq(a2, a3, 2 * n))))
			return ERR_BAD_LOGIC;
		if ((c->n[6] == 2) != !f3)
			return ERR_BAD_LOGIC;                  /* 2 T = O exactly for the point of order 2 */
		/* P + (-P) and P - P: the point at infinity */
		ecAddA(R1, PJ, ng, ec, st);
		ecSubA(R2, PJ, tors, ec, st);
		if (ecToA(a1, R1, ec, st) || ecToA(a2, R2, ec, st))
			return ERR_BAD_LOGIC;
		sk_count("probe.mixed_addition_degenerate_branches", 1);
	}
	/* k P has order dividing that of P: the multiple is O or again of that order */
	if (fl[2])
	{
		st = stk(ecHasOrderA_deep(n, ec->d, ec->deep, 1));
		fl[4] = ecHasOrderA(pt, ec, q, 1, st);
		if (!fl[4])
			return ERR_BAD_LOGIC;
	}
	return ERR_OK;
}

/* ------------------------------------------------------ GF(2^m) and its curves */
static const char* const DN[10] = {
	"1.2.804.2.1.1.1.1.3.1.1.1.2.0", "1.2.804.2.1.1.1.1.3.1.1.1.2.1", "1.2.804.2.1.1.1.1.3.1.1.1.2.2",
	"1.2.804.2.1.1.1.1.3.1.1.1.2.3", "1.2.804.2.1.1.1.1.3.1.1.1.2.4", "1.2.804.2.1.1.1.1.3.1.1.1.2.5",
	"1.2.804.2.1.1.1.1.3.1.1.1.2.6", "1.2.804.2.1.1.1.1.3.1.1.1.2.7", "1.2.804.2.1.1.1.1.3.1.1.1.2.8",
	"1.2.804.2.1.1.1.1.3.1.1.1.2.9" };
static void gen_ec2(fc_ctx* c)
{
	dstu_params* p = (dstu_params*)fc_raw(c, sizeof(dstu_params));
	size_t m, no, n;
	size_t* pp = (size_t*)fc_raw(c, 4 * sizeof(size_t));
	unsigned k = fc_below(c, 10);
	dstuParamsStd(p, DN[k]);
	m = p->p[0], no = O_OF_B(m), n = W_OF_B(m);
	pp[0] = p->p[0], pp[1] = p->p[1], pp[2] = p->p[2], pp[3] = p->p[3];
	c->a[10] = p, c->a[2] = pp, c->n[0] = m;
	c->a[11] = sk_alloc(gf2Create_keep(m));
	c->a[12] = sk_alloc(ec2CreateLD_keep(n));
	c->n[1] = pick_n(c, 1, n + 1), c->n[2] = pick_n(c, 1, n + 1);
	c->a[1] = opnd(c, c->n[1], 0, 0), c->a[5] = opnd(c, c->n[2], 0, 0);
	c->a[6] = fc_pub(c, no), c->a[8] = fc_pub(c, no);
	if (m % 8)
		((octet*)c->a[6])[no - 1] &= (octet)((1u << (m % 8)) - 1), ((octet*)c->a[8])[no - 1] &= (octet)((1u << (m % 8)) - 1);
	c->n[5] = fc_below(c, 8);
	c->n[6] = fc_below(c, 4) == 0;                 /* multiply the point of order 2 instead of the base point */
	c->a[0] = fc_out(c, 2 * no);
	c->a[4] = fc_out(c, 2 * no);
	c->a[9] = fc_out(c, no);
	c->a[7] = fc_out(c, sizeof(int) * 12);
	c->variant = (int)(m * 10 + c->n[5]);
}
static err_t call_ec2(fc_ctx* c)
{
	dstu_params* p = (dstu_params*)c->a[10];
	qr_o* f = (qr_o*)c->a[11];
	ec_o* ec = (ec_o*)c->a[12];
	size_t m = c->n[0], no = O_OF_B(m), n = W_OF_B(m);
	int* fl = (int*)c->a[7];
	word* pt = (word*)sk_alloc(W(2 * n));
	word* pt2 = (word*)sk_alloc(W(2 * n));
	word* pt3 = (word*)sk_alloc(W(2 * n));
	word* t = (word*)sk_alloc(W(n));
	word* u = (word*)sk_alloc(W(n));
	word* x = (word*)sk_alloc(W(n));
	octet* A = (octet*)sk_alloc(no);
	void* st;
	memset(fl, 0, sizeof(int) * 12);
	memset(c->a[0], 0, 2 * no), memset(c->a[4], 0, 2 * no), memset(c->a[9], 0, no);
	if (c->n[5] == 1) p->B[0] ^= 1;
	if (c->n[5] == 2) p->P[0] ^= 1;
	if (c->n[5] == 3) p->n[0] ^= 2;
	st = stk(gf2Create_deep(m));
	if (!gf2Create(f, (const size_t*)c->a[2], st))
		return ERR_OK;
	st = stk(gf2IsValid_deep(n));
	fl[0] = gf2IsValid(f, st);
	memset(A, 0, no), A[0] = p->A;
	st = stk(ec2CreateLD_deep(n, f->deep));
	if (!ec2CreateLD(ec, f, A, p->B, st))
		return ERR_OK;
	st = stk(ecCreateGroup_deep(f->deep));
	if (!ecCreateGroup(ec, p->P, p->P + no, p->n, no, p->c, st))
		return ERR_OK;
	st = stk(ec2IsValid_deep(n));
	fl[1] = ec2IsValid(ec, st);
	st = stk(ec2SeemsValidGroup_deep(n, f->deep));
	fl[2] = ec2SeemsValidGroup(ec, st);
	st = stk(ec2IsSafeGroup_deep(n));
	fl[3] = ec2IsSafeGroup(ec, 1 + fc_below(c, 40), st);
	/* field helpers: trace, quadratic equation (m is odd for all standard fields) */
	st = stk(f->deep);
	if (qrFrom(t, c->a[6], f, st) && qrFrom(u, c->a[8], f, st))
	{
		st = stk(gf2Tr_deep(n, f->deep));
		fl[4] = gf2Tr(t, f, st);
		if (m % 2)
		{
			st = stk(gf2QSolve_deep(n, f->deep));
			fl[5] = gf2QSolve(x, t, u, f, st);
			if (fl[5])
			{
				st = stk(f->deep);
				qrTo(c->a[9], x, f, st);
			}
		}
	}
	if (c->n[5] >= 1 && c->n[5] <= 3)
		return ERR_OK;
	/* the standard parameters carry no base point (dstuPointGen makes one):
	   use one derived from the public input, or the point (0, sqrt(B)) of order 2 */
	{
		word* bp = (word*)sk_alloc(W(2 * n));
		int found = 0;
		if (!c->n[6] && qrFrom(ecX(bp), c->a[8], f, (st = stk(f->deep))) && !qrIsZero(ecX(bp), f))
		{
			/* y^2 + xy = x^3 + A x^2 + B  <=>  (y/x)^2 + (y/x) = x + A + B / x^2 */
			word* rhs = (word*)sk_alloc(W(n));
			word* one = (word*)sk_alloc(W(n));
			st = stk(f->deep);
			qrSqr(rhs, ecX(bp), f, st);
			qrDiv(rhs, ec->B, rhs, f, st);
			gf2Add2(rhs, ecX(bp), f);
			gf2Add2(rhs, ec->A, f);
			qrSetUnity(one, f);
			st = stk(gf2QSolve_deep(n, f->deep));
			if (gf2QSolve(x, one, rhs, f, st))
			{
				st = stk(f->deep);
				qrMul(ecY(bp, n), x, ecX(bp), f, st);
				found = 1;
			}
		}
		if (!found)
		{
			qrSetZero(ecX(bp), f);
			qrSetZero(u, f);
			st = stk(gf2QSolve_deep(n, f->deep));
			gf2QSolve(ecY(bp, n), u, ec->B, f, st);
		}
		wwCopy(ec->base, bp, 2 * n);
	}
	st = stk(ec2IsOnA_deep(n, f->deep));
	fl[6] = ec2IsOnA(ec->base, ec, st);
	if (!fl[6])
		return ERR_BAD_LOGIC;
	if (c->n[6])
		sk_count("probe.point_of_order_2_multiplied", 1);
	st = stk(ecMulA_deep(n, ec->d, ec->deep, c->n[1]));
	fl[7] = ecMulA(pt, ec->base, ec, c->a[1], c->n[1], st);
	if (!fl[7])
		return ERR_OK;
	st = stk(ec2IsOnA_deep(n, f->deep));
	fl[8] = ec2IsOnA(pt, ec, st);
	st = stk(ecAddMulA_deep(n, ec->d, ec->deep, 2, c->n[2], c->n[1]));
	fl[9] = ecAddMulA(pt2, ec, st, 2, pt, (const word*)c->a[5], c->n[2], ec->base, (const word*)c->a[1], c->n[1]);
	st = stk(ecHasOrderA_deep(n, ec->d, ec->deep, n + 1));
	fl[10] = ecHasOrderA(pt, ec, ec->order, n + 1, st);
	{
		/* projective interface: 2 P - (-P) = 3 P */
		word* P3 = (word*)sk_alloc(W(ec->d * n));
		word* T = (word*)sk_alloc(W(ec->d * n));
		word* N = (word*)sk_alloc(W(ec->d * n));
		word* a3 = (word*)sk_alloc(W(2 * n));
		word* m3 = (word*)sk_alloc(W(2 * n));
		word k[1];
		int ok1, ok2;
		st = stk(ec->deep);
		ecFromA(P3, pt, ec, st);
		ecDbl(T, P3, ec, st);
		ecNeg(N, P3, ec, st);
		ecSub(T, T, N, ec, st);
		ok1 = ecToA(a3, T, ec, st);
		k[0] = 3;
		st = stk(ecMulA_deep(n, ec->d, ec->deep, 1));
		ok2 = ecMulA(m3, pt, ec, k, 1, st);
		if (ok1 != ok2 || (ok1 && !wwEq(m3, a3, 2 * n)))
			return ERR_BAD_LOGIC;
	}
	if (fl[9])
	{
		st = stk(ec2AddAA_deep(n, f->deep));
		if (ec2AddAA(pt3, pt2, pt, ec, st))
		{
			/* ec2AddAA/ec2SubAA need c disjoint from a (asserted in ec2.c; the header is silent) */
			st = stk(ec2SubAA_deep(n, f->deep));
			fl[11] = ec2SubAA(pt, pt3, ec->base, ec, st);
			if (fl[11])
				wwCopy(pt3, pt, 2 * n);
		}
		ec2NegA(pt2, pt2, ec);
		st = stk(f->deep);
		qrTo((octet*)c->a[0], ecX(pt2), f, st), qrTo((octet*)c->a[0] + no, ecY(pt2, n), f, st);
		if (fl[11])
			qrTo((octet*)c->a[4], ecX(pt3), f, st), qrTo((octet*)c->a[4] + no, ecY(pt3, n), f, st);
	}
	return ERR_OK;
}

#define D(NAME, GEN, CALL) { NAME, GEN, CALL, 0, FC_MATH }
const fc_desc fc_math2[] = {
	D("priIsSieved", gen_priIsSieved, call_priIsSieved), D("priIsSmooth", gen_priIsSmooth, call_priIsSmooth),
	D("priIsPrimeW", gen_priIsPrimeW, call_priIsPrimeW), D("priRMTest", gen_priRMTest, call_priRMTest),
	D("priIsPrime", gen_priIsPrime, call_priIsPrime), D("priIsSGPrime", gen_priIsSGPrime, call_priIsSGPrime),
	D("priNextPrimeW", gen_priNextPrimeW, call_priNextPrimeW), D("priNextPrime", gen_priNextPrime, call_priNextPrime),
	D("priExtendPrime", gen_priExtendPrime, call_priExtendPrime), D("priExtendPrime2", gen_priExtendPrime2, call_priExtendPrime2),
	D("zzIsCoprime", gen_zzIsCoprime, call_zzIsCoprime), D("zzMulWMod", gen_zzMulWMod, call_zzMulWMod),
	D("zzAlmostInvMod", gen_zzAlmostInvMod, call_zzAlmostInvMod), D("zzRed", gen_zzRed, call_zzRed),
	D("zzRedCrand", gen_zzRedCrand, call_zzRedCrand), D("zzRedCrandMont", gen_zzRedCrandMont, call_zzRedCrandMont),
	D("zzPowerModW", gen_zzPowerModW, call_zzPowerModW), D("ppRed", gen_ppRed, call_ppRed),
	D("ppMulW+ppAddMulW", gen_ppMulW, call_ppMulW),
	D("ppRedTrinomial/Pentanomial", gen_ppRedFast, call_ppRedFast),
	D("zmCreate+qrPower", gen_qrPower, call_qrPower), D("zmMontCreate+ops", gen_zmMont, call_zmMont),
	D("gfp+ecp validators+SWU+ecAddMulA", gen_ecp2, call_ecp2),
	D("ecp small-order points", gen_ecp_tors, call_ecp_tors),
	D("gf2+ec2CreateLD+validators+ops", gen_ec2, call_ec2),
};
const unsigned fc_math2_n = sizeof(fc_math2) / sizeof(fc_math2[0]);
