/* Descriptors: bake KDF/SWU, bpki containers, btok CV certificates. */
#include "fc.h"
#include "b2util.h"
#include "bee2/crypto/bake.h"
#include "bee2/crypto/bpki.h"
#include "bee2/crypto/btok.h"

static const size_t PL[4] = { 24, 32, 48, 64 };

/* ------------------------------------------------------------- bakeKDF */
static void gen_KDF(fc_ctx* c)
{
	static const size_t sl[] = { 0, 1, 16, 32, 33, 64, 100 };
	c->n[1] = FC_PICK(c, sl);
	c->n[2] = FC_PICK(c, sl);
	c->n[3] = fc_below(c, 4) ? fc_below(c, 3) : (size_t)sk_u64(&c->rng);
	c->a[1] = fc_sec(c, c->n[1]);
	c->a[2] = fc_pub(c, c->n[2]);
	c->a[0] = fc_out(c, 32);
	fc_mark_sec(c, c->a[0], 32);
	c->variant = (int)(c->n[1] * 1000 + c->n[2]);
}
static err_t call_KDF(fc_ctx* c) { return bakeKDF(c->a[0], c->a[1], c->n[1], c->a[2], c->n[2], c->n[3]); }

/* ------------------------------------------------------------- bakeSWU */
static void gen_SWU(fc_ctx* c)
{
	bign_params* p = (bign_params*)fc_raw(c, sizeof(bign_params));
	unsigned r = fc_below(c, 8);
	b2_params(p, r < 5 ? 32 : r < 7 ? 48 : 64);
	c->a[10] = p, c->n[10] = p->l;
	c->a[1] = fc_sec(c, p->l / 4);
	c->a[0] = fc_out(c, p->l / 2);
	c->variant = (int)p->l;
}
static err_t call_SWU(fc_ctx* c) { return bakeSWU(c->a[0], c->a[10], c->a[1]); }
static int bad_SWU(fc_ctx* c, int j, err_t* exp)
{
	bign_params* p = (bign_params*)c->a[10];
	exp[0] = ERR_BAD_PARAMS;
	switch (j)
	{
	case 0: p->l = 0; return 1;
	case 1: p->l = 100; return 1;
	case 2: p->l = 512; return 1;
	case 3: p->p[0] ^= 1; return 1;
	}
	return 0;
}

/* ---------------------------------------------------------------- bpki */
/* PrivkeyWrap: a0 epki, a1 &len, a2 privkey,n2, a3 pwd,n3, a4 salt, n5 iter */
static void gen_PrivkeyWrap(fc_ctx* c)
{
	static const size_t kl[3] = { 32, 48, 64 };
	size_t n = 0;
	c->n[2] = FC_PICK(c, kl);
	c->n[3] = fc_below(c, 40);
	c->n[5] = 10000 + fc_below(c, 3);
	c->a[2] = fc_sec(c, c->n[2]);
	c->a[3] = fc_sec(c, c->n[3]);
	c->a[4] = fc_pub(c, 8);
	bpkiPrivkeyWrap(0, &n, 0, c->n[2], 0, 0, 0, c->n[5]);
	c->a[0] = fc_out(c, n);
	c->a[1] = fc_out(c, sizeof(size_t));
	c->variant = (int)c->n[2];
}
static err_t call_PrivkeyWrap(fc_ctx* c) { return bpkiPrivkeyWrap(c->a[0], (size_t*)c->a[1], c->a[2], c->n[2], c->a[3], c->n[3], c->a[4], c->n[5]); }
static int bad_PrivkeyWrap(fc_ctx* c, int j, err_t* exp)
{
	/* 24 (bign96) is accepted by the implementation and listed as a valid key
	   length by C17, although the header still says {32, 48, 64} */
	static const size_t bk[] = { 0, 1, 16, 23, 31, 33, 47, 65, 128 };
	if (j < 9)
	{
		c->n[2] = bk[j];
		c->a[2] = fc_sec(c, bk[j]);
		c->nouts = 0;
		c->a[0] = fc_out(c, 400), c->a[1] = fc_out(c, sizeof(size_t));
		exp[0] = ERR_BAD_PRIVKEY;
		return 1;
	}
	j -= 9;
	if (j < 3)
	{
		static const size_t bi[] = { 0, 1, 9999 };
		c->n[5] = bi[j];
		exp[0] = ERR_BAD_INPUT;
		return 1;
	}
	return 0;
}
/* PrivkeyUnwrap: a0 privkey, a1 &len, a2 epki,n2, a3 pwd,n3 */
static void gen_unwrap_common(fc_ctx* c, int share)
{
	static const size_t kl[3] = { 32, 48, 64 };
	static const size_t sl[3] = { 17, 25, 33 };
	size_t m = share ? FC_PICK(c, sl) : FC_PICK(c, kl), n = 0;
	octet* k = fc_sec(c, m);
	octet* salt = fc_pub(c, 8);
	if (share)
		k[0] = (octet)(1 + k[0] % 16);
	c->n[3] = fc_below(c, 40);
	c->a[3] = fc_sec(c, c->n[3]);
	if (share)
		bpkiShareWrap(0, &n, 0, m, 0, 0, 0, 10000);
	else
		bpkiPrivkeyWrap(0, &n, 0, m, 0, 0, 0, 10000);
	c->a[2] = fc_raw(c, n), c->n[2] = n;
	if (share)
		bpkiShareWrap(c->a[2], &n, k, m, c->a[3], c->n[3], salt, 10000);
	else
		bpkiPrivkeyWrap(c->a[2], &n, k, m, c->a[3], c->n[3], salt, 10000);
	fc_mark_pub(c, c->a[2], n);
	c->a[0] = fc_out(c, m);
	c->a[1] = fc_out(c, sizeof(size_t));
	c->plain = k, c->plain_len = m, c->dest = c->a[0], c->dest_len = m;
	c->n[6] = (size_t)share;
	c->variant = (int)m;
}
static void gen_PrivkeyUnwrap(fc_ctx* c) { gen_unwrap_common(c, 0); }
static void gen_ShareUnwrap(fc_ctx* c) { gen_unwrap_common(c, 1); }
static err_t call_PrivkeyUnwrap(fc_ctx* c) { return bpkiPrivkeyUnwrap(c->a[0], (size_t*)c->a[1], c->a[2], c->n[2], c->a[3], c->n[3]); }
static err_t call_ShareUnwrap(fc_ctx* c) { return bpkiShareUnwrap(c->a[0], (size_t*)c->a[1], c->a[2], c->n[2], c->a[3], c->n[3]); }
static int bad_unwrap(fc_ctx* c, int j, err_t* exp)
{
	exp[0] = FC_ANYERR;
	if (c->n[2] < 60)
		return 0; /* already shortened by another variant */
	switch (j)
	{
	case 0: /* wrong password */
	{
		octet* p = fc_sec(c, c->n[3] + 1);
		memcpy(p, c->a[3], c->n[3]);
		p[c->n[3]] = 'x';
		c->a[3] = p, c->n[3] += 1;
		return 1;
	}
	case 1: /* storage fault in the encrypted key (last 40 octets) */
		((octet*)c->a[2])[c->n[2] - 1 - fc_below(c, 40)] ^= (octet)(1u << fc_below(c, 8));
		return 1;
	case 2: /* truncation (exact-size copy) */
		c->n[2] -= 1 + fc_below(c, 8);
		c->a[2] = fc_cut(c, c->a[2], c->n[2]);
		return 1;
	case 3:
		c->n[2] = 0;
		c->a[2] = fc_cut(c, c->a[2], 0);
		return 1;
	case 4: /* outer tag */
		((octet*)c->a[2])[0] ^= 0x10;
		return 1;
	case 5: /* a well-formed container of the other kind under the same password: the
	           integrity check passes, the decrypted body is not what this function unwraps */
	{
		static const size_t kl[3] = { 32, 48, 64 };
		static const size_t sl[3] = { 17, 25, 33 };
		int other_share = !c->n[6];
		size_t m = other_share ? FC_PICK(c, sl) : FC_PICK(c, kl), n = 0;
		octet* k = fc_sec(c, m);
		octet* salt = fc_pub(c, 8);
		if (other_share)
		{
			k[0] = (octet)(1 + k[0] % 16);
			bpkiShareWrap(0, &n, 0, m, 0, 0, 0, 10000);
			c->a[2] = fc_raw(c, n), c->n[2] = n;
			bpkiShareWrap(c->a[2], &n, k, m, c->a[3], c->n[3], salt, 10000);
		}
		else
		{
			bpkiPrivkeyWrap(0, &n, 0, m, 0, 0, 0, 10000);
			c->a[2] = fc_raw(c, n), c->n[2] = n;
			bpkiPrivkeyWrap(c->a[2], &n, k, m, c->a[3], c->n[3], salt, 10000);
		}
		fc_mark_pub(c, c->a[2], n);
		c->plain = k, c->plain_len = m;
		return 1;
	}
	}
	return 0;
}
static void gen_ShareWrap(fc_ctx* c)
{
	static const size_t sl[3] = { 17, 25, 33 };
	size_t n = 0;
	c->n[2] = FC_PICK(c, sl);
	c->n[3] = fc_below(c, 40);
	c->n[5] = 10000;
	c->a[2] = fc_sec(c, c->n[2]);
	((octet*)c->a[2])[0] = (octet)(1 + ((octet*)c->a[2])[0] % 16);
	c->a[3] = fc_sec(c, c->n[3]);
	c->a[4] = fc_pub(c, 8);
	bpkiShareWrap(0, &n, 0, c->n[2], 0, 0, 0, c->n[5]);
	c->a[0] = fc_out(c, n);
	c->a[1] = fc_out(c, sizeof(size_t));
	c->variant = (int)c->n[2];
}
static err_t call_ShareWrap(fc_ctx* c) { return bpkiShareWrap(c->a[0], (size_t*)c->a[1], c->a[2], c->n[2], c->a[3], c->n[3], c->a[4], c->n[5]); }
static int bad_ShareWrap(fc_ctx* c, int j, err_t* exp)
{
	static const size_t bk[] = { 0, 1, 16, 18, 24, 26, 32, 34, 65 };
	if (j < 9)
	{
		c->n[2] = bk[j];
		c->a[2] = fc_sec(c, bk[j] ? bk[j] : 1);
		((octet*)c->a[2])[0] = 1;
		c->nouts = 0;
		c->a[0] = fc_out(c, 400), c->a[1] = fc_out(c, sizeof(size_t));
		exp[0] = ERR_BAD_SHAREKEY;
		return 1;
	}
	j -= 9;
	if (j < 3)
	{
		static const octet bn[] = { 0, 17, 255 };
		((octet*)c->a[2])[0] = bn[j];
		exp[0] = ERR_BAD_SHAREKEY;
		return 1;
	}
	j -= 3;
	if (j < 3)
	{
		static const size_t bi[] = { 0, 1, 9999 };
		c->n[5] = bi[j];
		exp[0] = ERR_BAD_INPUT;
		return 1;
	}
	return 0;
}

/* ------------------------------------------------------------ btok CVC */
/* a20 cvc, a21 issuer privkey,n21, a22 issuer cert,n22, a23 holder privkey,n23,
   a24 cert,n24, a25 issuer cvc, n26/n27/n28 days (from, until, now) */
static void set_name(char* dst, fc_ctx* c, const char* pfx)
{
	size_t n = 8 + fc_below(c, 5), i, pl = strlen(pfx);
	memset(dst, 0, 13);
	memcpy(dst, pfx, pl);
	for (i = pl; i < n; ++i)
		dst[i] = (char)('0' + fc_below(c, 10));
}

static void make_root(fc_ctx* c)
{
	btok_cvc_t* ca = (btok_cvc_t*)fc_raw(c, sizeof(btok_cvc_t));
	size_t pl = FC_PICK(c, PL), n = 0;
	octet* priv = (octet*)sk_alloc(pl);
	unsigned from = 365 * 20 + fc_below(c, 3000), until = from + 1 + fc_below(c, 3000);
	memset(ca, 0, sizeof(*ca));
	set_name(ca->authority, c, "BYCA");
	memcpy(ca->holder, ca->authority, 13);
	b2_date(ca->from, from), b2_date(ca->until, until);
	if (fc_below(c, 2))
		sk_bytes(&c->rng, ca->hat_eid, 5), sk_bytes(&c->rng, ca->hat_esign, 2);
	b2_keypair(priv, ca->pubkey, pl, fc_tape, c);
	ca->pubkey_len = 0;
	btokCVCWrap(0, &n, ca, priv, pl);
	c->a[22] = fc_raw(c, n), c->n[22] = n;
	btokCVCWrap(c->a[22], &n, ca, priv, pl);
	c->a[25] = ca, c->a[21] = priv, c->n[21] = pl;
	c->n[26] = from, c->n[27] = until;
	fc_mark_sec(c, priv, pl);
	fc_mark_pub(c, c->a[22], n);
}

static void make_leaf_content(fc_ctx* c, int with_pubkey)
{
	btok_cvc_t* cv = (btok_cvc_t*)fc_raw(c, sizeof(btok_cvc_t));
	btok_cvc_t* ca = (btok_cvc_t*)c->a[25];
	size_t pl = FC_PICK(c, PL);
	octet* priv = (octet*)sk_alloc(pl);
	unsigned from = (unsigned)c->n[26] + fc_below(c, (uint32_t)(c->n[27] - c->n[26] + 1));
	unsigned until = from + fc_below(c, 2000);
	memset(cv, 0, sizeof(*cv));
	memcpy(cv->authority, ca->holder, 13);
	set_name(cv->holder, c, "BYT");
	b2_date(cv->from, from), b2_date(cv->until, until);
	if (fc_below(c, 2))
		sk_bytes(&c->rng, cv->hat_eid, 5), sk_bytes(&c->rng, cv->hat_esign, 2);
	b2_keypair(priv, cv->pubkey, pl, fc_tape, c);
	cv->pubkey_len = with_pubkey ? 2 * pl : 0;
	c->a[20] = cv, c->a[23] = priv, c->n[23] = pl;
	c->n[28] = from + fc_below(c, until - from + 1);
	c->n[29] = from, c->n[30] = until;
}

/* CVCWrap (self-signed / pre-certificate) */
static void gen_CVCWrap(fc_ctx* c)
{
	size_t n = 0;
	make_root(c);
	make_leaf_content(c, (int)fc_below(c, 2));
	c->nsecs = 0;
	fc_mark_sec(c, c->a[23], c->n[23]);
	btokCVCWrap(0, &n, c->a[20], c->a[23], c->n[23]);
	c->a[0] = fc_out(c, n);
	c->a[1] = fc_out(c, sizeof(size_t));
	c->variant = (int)c->n[23];
}
static err_t call_CVCWrap(fc_ctx* c) { return btokCVCWrap(c->a[0], (size_t*)c->a[1], c->a[20], c->a[23], c->n[23]); }
static int bad_cvc_content(fc_ctx* c, int j, err_t* exp)
{
	btok_cvc_t* cv = (btok_cvc_t*)c->a[20];
	exp[0] = FC_ANYERR;
	switch (j)
	{
	case 0: cv->holder[7] = 0; return 1;                       /* name of 7 */
	case 1: memset(cv->holder, 'A', 13); return 1;              /* name of 13+, unterminated */
	case 2: cv->authority[3] = 0; return 1;
	case 3: cv->from[2] = 1, cv->from[3] = 3; return 1;         /* month 13 */
	case 4: cv->until[4] = 3, cv->until[5] = 2; return 1;       /* day 32 */
	case 5: cv->from[0] = 0x0A; return 1;                       /* not a decimal digit */
	case 6: memcpy(cv->until, cv->from, 6); cv->from[0] = 9, cv->from[1] = 9, cv->until[0] = 0; return 1; /* from > until */
	case 7: cv->holder[2] = 0x07; return 1;                     /* unprintable */
	case 8: cv->from[2] = 0, cv->from[3] = 2, cv->from[4] = 3, cv->from[5] = 0; return 1; /* 30 February */
	}
	return 0;
}
static int bad_CVCWrap(fc_ctx* c, int j, err_t* exp)
{
	if (j < 9)
		return bad_cvc_content(c, j, exp);
	j -= 9;
	exp[0] = FC_ANYERR;
	switch (j)
	{
	case 0: c->n[23] += 1; c->a[23] = fc_sec(c, c->n[23]); return 1;
	case 1: c->n[23] = 0; return 1;
	case 2: c->n[23] = 16; return 1;
	case 3: /* key/content mismatch when the key is given explicitly */
		if (((btok_cvc_t*)c->a[20])->pubkey_len == 0)
			return 0;
		((btok_cvc_t*)c->a[20])->pubkey[5] ^= 1;
		return 1;
	}
	return 0;
}

/* CVCIss */
static void gen_CVCIss(fc_ctx* c)
{
	size_t n = 0;
	make_root(c);
	make_leaf_content(c, 1);
	btokCVCIss(0, &n, c->a[20], c->a[22], c->n[22], c->a[21], c->n[21]);
	c->a[0] = fc_out(c, n);
	c->a[1] = fc_out(c, sizeof(size_t));
	c->variant = (int)(c->n[21] * 100 + c->n[23]);
}
static err_t call_CVCIss(fc_ctx* c) { return btokCVCIss(c->a[0], (size_t*)c->a[1], c->a[20], c->a[22], c->n[22], c->a[21], c->n[21]); }
static int bad_CVCIss(fc_ctx* c, int j, err_t* exp)
{
	btok_cvc_t* cv = (btok_cvc_t*)c->a[20];
	if (j < 9)
		return bad_cvc_content(c, j, exp);
	j -= 9;
	exp[0] = FC_ANYERR;
	switch (j)
	{
	case 0: cv->authority[5] ^= 1; return 1;                         /* not issued by this CA */
	case 1: b2_date(cv->from, (unsigned)c->n[27] + 1), b2_date(cv->until, (unsigned)c->n[27] + 2); return 1; /* CA expired at issue time */
	case 2: if (c->n[26] == 0) return 0; b2_date(cv->from, (unsigned)c->n[26] - 1); return 1; /* before CA validity */
	case 3: if (c->n[22] < 60) return 0; c->n[22] -= 1; c->a[22] = fc_cut(c, c->a[22], c->n[22]); return 1;      /* truncated CA cert */
	case 4: ((octet*)c->a[21])[3] ^= 1; return 1;                    /* CA key mismatch */
	case 5: c->n[21] += 1; return 1;
	case 6: ((octet*)c->a[22])[c->n[22] / 2] ^= 1; return 1;         /* damaged CA cert */
	case 7: cv->pubkey[9] ^= 1; return 1;                            /* holder key off the curve */
	case 8: cv->pubkey_len = 65; return 1;
	}
	return 0;
}

/* CVCUnwrap / Val / Val2 / Match on an issued certificate */
static void gen_issued(fc_ctx* c)
{
	size_t n = 0;
	make_root(c);
	make_leaf_content(c, 1);
	btokCVCIss(0, &n, c->a[20], c->a[22], c->n[22], c->a[21], c->n[21]);
	c->a[24] = fc_raw(c, n), c->n[24] = n;
	btokCVCIss(c->a[24], &n, c->a[20], c->a[22], c->n[22], c->a[21], c->n[21]);
	c->a[5] = fc_raw(c, 6);
	b2_date(c->a[5], (unsigned)c->n[28]);
	c->nsecs = 0;
	c->variant = (int)(c->n[21] * 100 + c->n[23]);
}
static void gen_CVCUnwrap(fc_ctx* c)
{
	gen_issued(c);
	c->a[0] = fc_out(c, sizeof(btok_cvc_t));
	c->n[6] = fc_below(c, 2);
}
static err_t call_CVCUnwrap(fc_ctx* c)
{
	btok_cvc_t* ca = (btok_cvc_t*)c->a[25];
	if (c->n[6])
		return btokCVCUnwrap(c->a[0], c->a[24], c->n[24], ca->pubkey, 2 * c->n[21]);
	return btokCVCUnwrap(c->a[0], c->a[24], c->n[24], 0, 0);
}
static int bad_cert_bytes(fc_ctx* c, int j, err_t* exp)
{
	exp[0] = FC_ANYERR;
	if (c->n[24] < 60)
		return 0; /* already shortened by another variant */
	switch (j)
	{
	case 0: c->n[24] -= 1 + fc_below(c, 3); c->a[24] = fc_cut(c, c->a[24], c->n[24]); return 1;   /* truncated, exact size */
	case 1: c->n[24] = 0; c->a[24] = fc_cut(c, c->a[24], 0); return 1;
	case 2: c->n[24] = 2 + fc_below(c, 40); c->a[24] = fc_cut(c, c->a[24], c->n[24]); return 1;
	case 3: ((octet*)c->a[24])[0] ^= 0x20; return 1;
	case 4: ((octet*)c->a[24])[2] ^= 0x01; return 1;   /* outer length */
	}
	return 0;
}
static int bad_CVCUnwrap(fc_ctx* c, int j, err_t* exp)
{
	if (j < 5)
		return bad_cert_bytes(c, j, exp);
	if (j == 5)
	{
		/* signature check requested, signed octet altered */
		c->n[6] = 1;
		((octet*)c->a[24])[c->n[24] / 2] ^= (octet)(1u << fc_below(c, 8));
		exp[0] = FC_ANYERR;
		return 1;
	}
	if (j == 6)
	{
		c->n[6] = 1;
		((btok_cvc_t*)c->a[25])->pubkey[1] ^= 1; /* wrong verification key */
		exp[0] = FC_ANYERR;
		return 1;
	}
	return 0;
}
static void gen_CVCVal(fc_ctx* c) { gen_issued(c); }
static err_t call_CVCVal(fc_ctx* c) { return btokCVCVal(c->a[24], c->n[24], c->a[22], c->n[22], c->a[5]); }
static int bad_CVCVal(fc_ctx* c, int j, err_t* exp)
{
	if (j < 5)
		return bad_cert_bytes(c, j, exp);
	j -= 5;
	exp[0] = FC_ANYERR;
	if (c->n[24] < 60 || c->n[22] < 60)
		return 0;
	switch (j)
	{
	case 0: if (c->n[29] == 0) return 0; b2_date(c->a[5], (unsigned)c->n[29] - 1); return 1;  /* verifier clock before from */
	case 1: b2_date(c->a[5], (unsigned)c->n[30] + 1); return 1;   /* after until */
	case 2: ((octet*)c->a[5])[2] = 1, ((octet*)c->a[5])[3] = 9; return 1; /* month 19 */
	case 3: ((octet*)c->a[24])[c->n[24] - 1 - fc_below(c, 40)] ^= 1; return 1; /* signature octet */
	case 4: ((octet*)c->a[24])[c->n[24] / 3] ^= (octet)(1u << fc_below(c, 8)); return 1; /* signed octet */
	case 5: c->n[22] -= 1; c->a[22] = fc_cut(c, c->a[22], c->n[22]); return 1;
	case 6: ((octet*)c->a[22])[c->n[22] / 3] ^= 4; return 1;      /* issuer certificate altered */
	}
	return 0;
}
static void gen_CVCVal2(fc_ctx* c)
{
	gen_issued(c);
	c->a[0] = fc_below(c, 3) ? fc_out(c, sizeof(btok_cvc_t)) : 0;
}
static err_t call_CVCVal2(fc_ctx* c) { return btokCVCVal2(c->a[0], c->a[24], c->n[24], c->a[25], c->a[5]); }
static int bad_CVCVal2(fc_ctx* c, int j, err_t* exp)
{
	btok_cvc_t* ca = (btok_cvc_t*)c->a[25];
	if (j < 5)
		return bad_cert_bytes(c, j, exp);
	j -= 5;
	exp[0] = FC_ANYERR;
	switch (j)
	{
	case 0: if (c->n[29] == 0) return 0; b2_date(c->a[5], (unsigned)c->n[29] - 1); return 1;
	case 1: b2_date(c->a[5], (unsigned)c->n[30] + 1); return 1;
	case 2: ca->holder[4] ^= 1; return 1;                      /* names do not chain */
	case 3: ca->pubkey[7] ^= 1; return 1;                      /* issuer key */
	case 4: /* issuer expired before the certificate starts */
		if (c->n[29] == 0 || c->n[29] - 1 < c->n[26]) return 0;
		b2_date(ca->until, (unsigned)c->n[29] - 1);
		return 1;
	case 5: ca->from[2] = 2, ca->from[3] = 0; return 1;        /* issuer validity malformed (month 20) */
	case 6: if (c->n[24] < 60) return FC_SOFT(exp); ((octet*)c->a[24])[c->n[24] / 3] ^= (octet)(1u << fc_below(c, 8)); return 1;
	case 7: ((octet*)c->a[5])[2] = 1, ((octet*)c->a[5])[3] = 3; return 1;      /* verification date: month 13 */
	case 8: ((octet*)c->a[5])[fc_below(c, 6)] = (octet)(10 + fc_below(c, 200)); return 1;   /* not a decimal digit */
	}
	return 0;
}
static void gen_CVCMatch(fc_ctx* c)
{
	gen_issued(c);
	fc_mark_sec(c, c->a[23], c->n[23]);
}
static err_t call_CVCMatch(fc_ctx* c) { return btokCVCMatch(c->a[24], c->n[24], c->a[23], c->n[23]); }
static int bad_CVCMatch(fc_ctx* c, int j, err_t* exp)
{
	if (j < 5)
		return bad_cert_bytes(c, j, exp);
	j -= 5;
	exp[0] = FC_ANYERR;
	switch (j)
	{
	case 0: ((octet*)c->a[23])[2] ^= 1; return 1;
	case 1: c->a[23] = c->a[21], c->n[23] = c->n[21]; return 1; /* the issuer's key instead of the holder's */
	case 2: c->n[23] += 1; c->a[23] = fc_sec(c, c->n[23]); return 1;
	}
	return 0;
}
static void gen_CVCCheck(fc_ctx* c) { make_root(c); make_leaf_content(c, 1); c->nsecs = 0; }
static err_t call_CVCCheck(fc_ctx* c) { return btokCVCCheck(c->a[20]); }
static err_t call_CVCCheck2(fc_ctx* c) { return btokCVCCheck2(c->a[20], c->a[25]); }
static int bad_CVCCheck(fc_ctx* c, int j, err_t* exp)
{
	btok_cvc_t* cv = (btok_cvc_t*)c->a[20];
	if (j < 9)
		return bad_cvc_content(c, j, exp);
	j -= 9;
	exp[0] = FC_ANYERR;
	switch (j)
	{
	case 0: cv->pubkey[9] ^= 1; return 1;
	case 1: cv->pubkey_len = 63; return 1;
	case 2: cv->pubkey_len = 0; return 1;
	case 3: cv->pubkey_len = 129; return 1;
	}
	return 0;
}
static int bad_CVCCheck2(fc_ctx* c, int j, err_t* exp)
{
	btok_cvc_t* cv = (btok_cvc_t*)c->a[20];
	btok_cvc_t* ca = (btok_cvc_t*)c->a[25];
	if (j < 13)
		return bad_CVCCheck(c, j, exp);
	j -= 13;
	exp[0] = FC_ANYERR;
	switch (j)
	{
	case 0: cv->authority[5] ^= 1; return 1;
	case 1: b2_date(cv->from, (unsigned)c->n[27] + 1), b2_date(cv->until, (unsigned)c->n[27] + 2); return 1;
	case 2: if (c->n[26] == 0) return 0; b2_date(cv->from, (unsigned)c->n[26] - 1); return 1;
	case 3: ca->until[2] = 1, ca->until[3] = 5; return 1;
	}
	return 0;
}

#define D(NAME, GEN, CALL, BAD, FLAGS) { NAME, GEN, CALL, BAD, FLAGS }
const fc_desc fc_proto[] = {
	D("bakeKDF", gen_KDF, call_KDF, 0, FC_SECRET),
	D("bakeSWU", gen_SWU, call_SWU, bad_SWU, FC_SECRET),
	D("bpkiPrivkeyWrap", gen_PrivkeyWrap, call_PrivkeyWrap, bad_PrivkeyWrap, FC_SECRET | FC_SLOW),
	D("bpkiPrivkeyUnwrap", gen_PrivkeyUnwrap, call_PrivkeyUnwrap, bad_unwrap, FC_SECRET | FC_AUTH | FC_SLOW),
	D("bpkiShareWrap", gen_ShareWrap, call_ShareWrap, bad_ShareWrap, FC_SECRET | FC_SLOW),
	D("bpkiShareUnwrap", gen_ShareUnwrap, call_ShareUnwrap, bad_unwrap, FC_SECRET | FC_AUTH | FC_SLOW),
	D("btokCVCCheck", gen_CVCCheck, call_CVCCheck, bad_CVCCheck, 0),
	D("btokCVCCheck2", gen_CVCCheck, call_CVCCheck2, bad_CVCCheck2, 0),
	D("btokCVCWrap", gen_CVCWrap, call_CVCWrap, bad_CVCWrap, FC_SECRET),
	D("btokCVCIss", gen_CVCIss, call_CVCIss, bad_CVCIss, FC_SECRET),
	D("btokCVCUnwrap", gen_CVCUnwrap, call_CVCUnwrap, bad_CVCUnwrap, 0),
	D("btokCVCVal", gen_CVCVal, call_CVCVal, bad_CVCVal, 0),
	D("btokCVCVal2", gen_CVCVal2, call_CVCVal2, bad_CVCVal2, 0),
	D("btokCVCMatch", gen_CVCMatch, call_CVCMatch, bad_CVCMatch, FC_SECRET),
};
const unsigned fc_proto_n = sizeof(fc_proto) / sizeof(fc_proto[0]);
