/* Descriptors: DER encoders/decoders with exactly sized caller buffers (C07). */
#include "fc.h"
#include <stdio.h>
#include "bee2/core/der.h"
#include "bee2/core/oid.h"

static const u32 TAGS[] = { 0x01, 0x02, 0x03, 0x04, 0x0C, 0x13, 0x30, 0x31, 0x80, 0x81, 0xA0, 0xA3,
	0x5F20, 0x5F29, 0x7F21, 0x7F4E, 0x5F8101 };
static const size_t LENS[] = { 0, 1, 2, 126, 127, 128, 129, 255, 256, 257, 300, 1000, 65535, 65536, 70000 };

/* n0 tag, n1 len, a1 value, a0 der (exact), outputs: a4 decoded value, a5 sizes */
static void gen_derEnc(fc_ctx* c)
{
	size_t n;
	c->n[0] = FC_PICK(c, TAGS), c->n[1] = FC_PICK(c, LENS);
	c->a[1] = fc_pub(c, c->n[1]);
	n = derEnc(0, (u32)c->n[0], c->a[1], c->n[1]);
	c->n[2] = n;
	c->a[0] = fc_out(c, n == SIZE_MAX ? 1 : n);
	c->a[5] = fc_out(c, 4 * sizeof(size_t));
	c->variant = (int)(c->n[1] > 99999 ? 99999 : c->n[1]);
}
static err_t call_derEnc(fc_ctx* c)
{
	size_t* r = (size_t*)c->a[5];
	u32 tag = 0;
	const octet* val = 0;
	size_t len = 0;
	memset(r, 0, 4 * sizeof(size_t));
	if (c->n[2] == SIZE_MAX)
		return ERR_OK;
	r[0] = derEnc(c->a[0], (u32)c->n[0], c->a[1], c->n[1]);
	r[1] = derDec(&tag, &val, &len, c->a[0], c->n[2]);
	r[2] = tag, r[3] = len;
	if (r[0] != c->n[2] || r[1] != c->n[2] || tag != (u32)c->n[0] || len != c->n[1] ||
		(len && memcmp(val, c->a[1], len)))
		return ERR_BAD_FORMAT;
	if (!derIsValid(c->a[0], c->n[2]) || !derIsValid2(c->a[0], c->n[2], (u32)c->n[0]) ||
		derDec4(c->a[0], c->n[2], (u32)c->n[0], c->a[1], c->n[1]) != c->n[2])
		return ERR_BAD_FORMAT;
	/* one octet short must be refused without reading past the buffer */
	if (c->n[2] > 0 && derDec(&tag, &val, &len, c->a[0], c->n[2] - 1) != SIZE_MAX)
		return ERR_BAD_FORMAT;
	return ERR_OK;
}

static void gen_derSIZE(fc_ctx* c)
{
	static const size_t V[] = { 0, 1, 127, 128, 255, 256, 65535, 65536, 0x7FFFFFFF, 0xFFFFFFFF };
	c->n[0] = FC_PICK(c, TAGS), c->n[1] = FC_PICK(c, V);
	if (fc_below(c, 4) == 0)
		c->n[1] = (size_t)sk_u64(&c->rng);
	c->n[2] = derTSIZEEnc(0, (u32)c->n[0], c->n[1]);
	c->a[0] = fc_out(c, c->n[2]);
	c->a[5] = fc_out(c, 2 * sizeof(size_t));
	c->variant = (int)c->n[2];
}
static err_t call_derSIZE(fc_ctx* c)
{
	size_t* r = (size_t*)c->a[5];
	size_t v = 0;
	r[0] = derTSIZEEnc(c->a[0], (u32)c->n[0], c->n[1]);
	r[1] = derTSIZEDec(&v, c->a[0], c->n[2], (u32)c->n[0]);
	if (r[0] != c->n[2] || r[1] != c->n[2] || v != c->n[1] ||
		derTSIZEDec2(c->a[0], c->n[2], (u32)c->n[0], c->n[1]) != c->n[2])
		return ERR_BAD_FORMAT;
	return ERR_OK;
}

static void gen_derUINT(fc_ctx* c)
{
	static const size_t L[] = { 1, 2, 8, 31, 32, 33, 64, 127, 128, 200 };
	octet* v;
	c->n[0] = FC_PICK(c, TAGS), c->n[1] = FC_PICK(c, L);
	v = fc_pub(c, c->n[1]);
	switch (fc_below(c, 4))
	{
	case 0: v[c->n[1] - 1] |= 0x80; break;   /* needs a leading zero octet */
	case 1: v[c->n[1] - 1] = 0; break;       /* high octets zero: shortened */
	case 2: memset(v, 0, c->n[1]); break;
	}
	c->a[1] = v;
	c->n[2] = derTUINTEnc(0, (u32)c->n[0], v, c->n[1]);
	c->a[0] = fc_out(c, c->n[2]);
	c->a[4] = fc_out(c, c->n[1]);
	c->a[5] = fc_out(c, 3 * sizeof(size_t));
	c->variant = (int)c->n[1];
}
static err_t call_derUINT(fc_ctx* c)
{
	size_t* r = (size_t*)c->a[5];
	size_t len = c->n[1];
	memset(c->a[4], 0, c->n[1]);
	r[0] = derTUINTEnc(c->a[0], (u32)c->n[0], c->a[1], c->n[1]);
	r[1] = derTUINTDec(0, &len, c->a[0], c->n[2], (u32)c->n[0]);
	r[2] = len;
	if (r[0] != c->n[2] || r[1] != c->n[2] || len > c->n[1])
		return ERR_BAD_FORMAT;
	if (derTUINTDec(c->a[4], &len, c->a[0], c->n[2], (u32)c->n[0]) != c->n[2])
		return ERR_BAD_FORMAT;
	if (memcmp(c->a[4], c->a[1], len))
		return ERR_BAD_FORMAT;
	return ERR_OK;
}

static void gen_derBIT(fc_ctx* c)
{
	static const size_t L[] = { 0, 1, 7, 8, 9, 15, 16, 17, 127, 128, 129, 1000, 1023, 1024, 2041 };
	c->n[0] = FC_PICK(c, TAGS), c->n[1] = FC_PICK(c, L);   /* length in bits */
	c->a[1] = fc_pub(c, (c->n[1] + 7) / 8);
	c->n[2] = derTBITEnc(0, (u32)c->n[0], c->a[1], c->n[1]);
	c->a[0] = fc_out(c, c->n[2]);
	c->a[4] = fc_out(c, (c->n[1] + 7) / 8);
	c->a[5] = fc_out(c, 3 * sizeof(size_t));
	c->variant = (int)c->n[1];
}
static err_t call_derBIT(fc_ctx* c)
{
	size_t* r = (size_t*)c->a[5];
	size_t len = 0;
	r[0] = derTBITEnc(c->a[0], (u32)c->n[0], c->a[1], c->n[1]);
	r[1] = derTBITDec(c->a[4], &len, c->a[0], c->n[2], (u32)c->n[0]);
	r[2] = len;
	if (r[0] != c->n[2] || r[1] != c->n[2] || len != c->n[1] ||
		derTBITDec2(c->a[4], c->a[0], c->n[2], (u32)c->n[0], c->n[1]) != c->n[2])
		return ERR_BAD_FORMAT;
	return ERR_OK;
}

static void gen_derOCT(fc_ctx* c)
{
	c->n[0] = FC_PICK(c, TAGS), c->n[1] = LENS[fc_below(c, 12)];
	c->a[1] = fc_pub(c, c->n[1]);
	c->n[2] = derEnc(0, (u32)c->n[0], c->a[1], c->n[1]);
	c->a[0] = fc_out(c, c->n[2]);
	c->a[4] = fc_out(c, c->n[1]);
	c->a[5] = fc_out(c, 2 * sizeof(size_t));
	c->variant = (int)c->n[1];
}
static err_t call_derOCT(fc_ctx* c)
{
	size_t* r = (size_t*)c->a[5];
	size_t len = 0;
	derEnc(c->a[0], (u32)c->n[0], c->a[1], c->n[1]);
	r[0] = derTOCTDec(c->a[4], &len, c->a[0], c->n[2], (u32)c->n[0]);
	r[1] = len;
	if (r[0] != c->n[2] || len != c->n[1] || (len && memcmp(c->a[4], c->a[1], len)) ||
		derTOCTDec2(c->a[4], c->a[0], c->n[2], (u32)c->n[0], c->n[1]) != c->n[2])
		return ERR_BAD_FORMAT;
	return ERR_OK;
}

static void gen_derOID(fc_ctx* c)
{
	char* s = (char*)fc_raw(c, 160);
	unsigned arcs = 2 + fc_below(c, 9), i;
	int n;
	static const unsigned big[] = { 0, 1, 39, 40, 127, 128, 16383, 16384, 2097151, 2097152, 268435455, 4294967295u };
	unsigned a0 = fc_below(c, 3), a1 = a0 < 2 ? fc_below(c, 40) : big[fc_below(c, 12)] % 1000000;
	n = snprintf(s, 160, "%u.%u", a0, a1);
	for (i = 2; i < arcs && n < 140; ++i)
		n += snprintf(s + n, 160 - (size_t)n, ".%u", big[fc_below(c, 12)]);
	c->a[1] = s;
	c->n[2] = derOIDEnc(0, s);
	c->a[0] = fc_out(c, c->n[2] == SIZE_MAX ? 1 : c->n[2]);
	c->a[4] = fc_out(c, (size_t)n + 1);
	c->a[5] = fc_out(c, 2 * sizeof(size_t));
	c->n[1] = (size_t)n;
	c->variant = (int)arcs;
}
static err_t call_derOID(fc_ctx* c)
{
	size_t* r = (size_t*)c->a[5];
	size_t len = 0;
	memset(r, 0, 2 * sizeof(size_t));
	memset(c->a[4], 0, c->n[1] + 1);
	if (c->n[2] == SIZE_MAX)
		return ERR_OK; /* arc out of the supported range: refused at size query */
	r[0] = derOIDEnc(c->a[0], c->a[1]);
	r[1] = derOIDDec(c->a[4], &len, c->a[0], c->n[2]);
	if (r[0] != c->n[2] || r[1] != c->n[2] || len != c->n[1] || strcmp(c->a[4], c->a[1]) ||
		derOIDDec2(c->a[0], c->n[2], c->a[1]) != c->n[2])
		return ERR_BAD_FORMAT;
	return ERR_OK;
}

/* decoders on codes they did not produce: every proper prefix of a valid code (in a buffer of
   exactly the prefix), and a long-form tag with a redundant zero octet.  A decoder either refuses
   (SIZE_MAX) or reports what is really there: the tag and the length of the valid code, and no
   more octets than it was given. */
static void gen_derPrefix(fc_ctx* c)
{
	size_t n;
	c->n[0] = FC_PICK(c, TAGS), c->n[1] = (size_t)fc_below(c, 140);
	c->a[1] = fc_pub(c, c->n[1]);
	n = derEnc(0, (u32)c->n[0], c->a[1], c->n[1]);
	c->n[2] = n;
	c->a[0] = fc_out(c, n);
	c->n[3] = (size_t)fc_below(c, (uint32_t)n);      /* length of the prefix */
	c->a[2] = fc_out(c, c->n[3] ? c->n[3] : 1);
	c->a[5] = fc_out(c, 4 * sizeof(size_t));
	c->variant = (int)(c->n[3] < 6 ? c->n[3] : 6);
}
static err_t call_derPrefix(fc_ctx* c)
{
	size_t* r = (size_t*)c->a[5];
	octet* full = (octet*)c->a[0];
	octet* cut = (octet*)c->a[2];
	u32 tag = 0xEEEEEEEE;
	const octet* val = 0;
	size_t len = (size_t)-3, k = c->n[3];
	memset(r, 0, 4 * sizeof(size_t));
	if (derEnc(full, (u32)c->n[0], c->a[1], c->n[1]) != c->n[2])
		return ERR_BAD_LOGIC;
	memcpy(cut, full, k);
	r[0] = derTLDec(&tag, &len, cut, k);
	if (r[0] != SIZE_MAX && (r[0] > k || tag != (u32)c->n[0] || len != c->n[1]))
	{
		c->claim = "derTLDec reports a TL pair for a proper prefix of a code that is not the pair of the code (more octets than it was given, or a tag/length it never wrote)";
		return ERR_BAD_FORMAT;
	}
	r[1] = derDec(&tag, &val, &len, cut, k);
	if (r[1] != SIZE_MAX || derIsValid(cut, k))
	{
		c->claim = "derDec accepts a proper prefix of a code: the value it reports extends past the caller's buffer";
		return ERR_BAD_FORMAT;
	}
	/* a length so large that "TL octets + length" wraps around: 04 88 FF FF FF FF FF FF FF Fx */
	{
		octet wr[32];
		size_t cnt = 10 + (size_t)fc_below(c, 20), back = 1 + (size_t)fc_below(c, 10 + (uint32_t)(cnt - 10));
		size_t big = (size_t)0 - back;      /* 10 + big = 10 - back (mod 2^64) <= cnt */
		int i;
		memset(wr, 0x11, sizeof(wr));
		wr[0] = 0x04, wr[1] = 0x88;
		for (i = 0; i < 8; ++i)
			wr[2 + i] = (octet)(big >> (56 - 8 * i));
		tag = 0xEEEEEEEE, len = (size_t)-3, val = 0;
		if (big != SIZE_MAX && (derDec(&tag, &val, &len, wr, cnt) != SIZE_MAX || derIsValid(wr, cnt)))
		{
			c->claim = "derDec accepts a length of almost 2^64 octets inside a code of a few octets: value pointer and length lie outside the caller's buffer";
			return ERR_BAD_FORMAT;
		}
	}
	/* long-form tag whose first continuation octet carries no bits (5F 80 .., 7F 00 ..): not DER */
	if (c->n[0] > 0xFF && c->n[2] >= 3)
	{
		octet* red = (octet*)c->a[0];
		octet keep = red[1];
		red[1] &= 0x80;
		tag = 0xEEEEEEEE, len = (size_t)-3;
		r[2] = derTLDec(&tag, &len, red, c->n[2]);
		r[3] = (size_t)derIsValid(red, c->n[2]);
		red[1] = keep;
		if (r[2] != SIZE_MAX || r[3])
		{
			c->claim = "derTLDec/derIsValid accept a long-form tag with an empty first continuation octet; the tag is reported without having been written";
			return ERR_BAD_FORMAT;
		}
	}
	return ERR_OK;
}

#define D(NAME, GEN, CALL) { NAME, GEN, CALL, 0, FC_MATH }
const fc_desc fc_der[] = {
	D("derEnc/derDec", gen_derEnc, call_derEnc), D("derTSIZEEnc/Dec", gen_derSIZE, call_derSIZE),
	D("derTUINTEnc/Dec", gen_derUINT, call_derUINT), D("derTBITEnc/Dec", gen_derBIT, call_derBIT),
	D("derTOCTDec", gen_derOCT, call_derOCT), D("derOIDEnc/Dec", gen_derOID, call_derOID),
	D("der decoders on prefixes", gen_derPrefix, call_derPrefix),
};
const unsigned fc_der_n = sizeof(fc_der) / sizeof(fc_der[0]);
