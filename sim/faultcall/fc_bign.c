/* Descriptors: bign and bign96. */
#include "fc.h"
#include "bee2/crypto/bign.h"
#include "bee2/crypto/bign96.h"
#include "bee2/crypto/belt.h"

static const char* PNAME[3] = { "1.2.112.0.2.0.34.101.45.3.1", "1.2.112.0.2.0.34.101.45.3.2", "1.2.112.0.2.0.34.101.45.3.3" };

/* slots: a10 params, n10 l, a11 privkey, a12 pubkey, a13 oid_der, n13 oid_len */
static void load_params(fc_ctx* c, int b96)
{
	bign_params* p = (bign_params*)fc_raw(c, sizeof(bign_params));
	unsigned r = fc_below(c, 8);
	if (b96)
		bign96ParamsStd(p, "1.2.112.0.2.0.34.101.45.3.0");
	else
		bignParamsStd(p, PNAME[r < 5 ? 0 : r < 7 ? 1 : 2]);
	c->a[10] = p, c->n[10] = p->l;
	c->variant = (int)p->l;
}

static void load_oid(fc_ctx* c)
{
	size_t n = 0;
	octet* d;
	bignOidToDER(0, &n, "1.2.112.0.2.0.34.101.31.81");
	d = fc_raw(c, n);
	bignOidToDER(d, &n, "1.2.112.0.2.0.34.101.31.81");
	c->a[13] = d, c->n[13] = n;
}

static void make_keypair(fc_ctx* c, int b96, int priv_slot, int pub_slot)
{
	size_t l = c->n[10];
	octet* d = (octet*)sk_alloc(l / 4);
	octet* Q = (octet*)sk_alloc(l / 2);
	if (b96)
		bign96KeypairGen(d, Q, c->a[10], fc_tape, c);
	else
		bignKeypairGen(d, Q, c->a[10], fc_tape, c);
	fc_mark_sec(c, d, l / 4);
	fc_mark_pub(c, Q, l / 2);
	c->a[priv_slot] = d, c->a[pub_slot] = Q;
}

/* generic invalidators */
static int bad_params(fc_ctx* c, int j, err_t* exp)
{
	bign_params* p = (bign_params*)c->a[10];
	exp[0] = ERR_BAD_PARAMS;
	switch (j)
	{
	case 0: p->l = 0; return 1;
	case 1: p->l = 127; return 1;
	case 2: p->l = 129; return 1;
	case 3: p->l = 512; return 1;
	case 4: p->p[0] ^= 1; return 1;        /* even modulus */
	/* full validity of the parameter set is bignParamsVal's business (C12);
	   working functions only promise an operability check, so these are soft */
	case 5: p->q[0] ^= 2; return c->n[31] ? 1 : FC_SOFT(exp);
	case 6: p->yG[3] ^= 0x10; return c->n[31] ? 1 : FC_SOFT(exp);    /* base point off the curve */
	case 7: p->b[5] ^= 1; return c->n[31] ? 1 : FC_SOFT(exp);
	case 8:
	{
		/* bign.h: "unused octets must be zero" - one non-zero octet anywhere in the unused tail of
		   p, a, b, q or yG (l < 256 only; every working function checks this in bignIsOperable) */
		size_t no = p->l / 4;
		octet* fld[5];
		fld[0] = p->p, fld[1] = p->a, fld[2] = p->b, fld[3] = p->q, fld[4] = p->yG;
		if (p->l != 128 && p->l != 192)
			return FC_SOFT(exp);
		fld[fc_below(c, 5)][no + fc_below(c, (uint32_t)(64 - no))] = (octet)(1u << fc_below(c, 8));
		return 1;
	}
	}
	return 0;
}
#define NBADPAR 9

static int bad_privkey(fc_ctx* c, int j, err_t* exp, int slot)
{
	size_t l = c->n[10];
	exp[0] = ERR_BAD_PRIVKEY;
	switch (j)
	{
	case 0: memset(c->a[slot], 0, l / 4); return 1;
	case 1: memset(c->a[slot], 0xFF, l / 4); return 1;
	case 2: memcpy(c->a[slot], ((bign_params*)c->a[10])->q, l / 4); return 1; /* d = q */
	}
	return 0;
}

static int bad_pubkey(fc_ctx* c, int j, err_t* exp, int slot)
{
	size_t l = c->n[10];
	octet* Q = (octet*)c->a[slot];
	exp[0] = ERR_BAD_PUBKEY;
	switch (j)
	{
	case 0: Q[fc_below(c, (uint32_t)(l / 2))] ^= (octet)(1u << fc_below(c, 8)); return 1;
	case 1: memset(Q, 0, l / 2); return 1;
	case 2: memset(Q, 0xFF, l / 2); return 1;               /* coordinates >= p */
	case 3: memcpy(Q, ((bign_params*)c->a[10])->p, l / 4); return 1; /* x = p */
	}
	return 0;
}

static int bad_oid(fc_ctx* c, int j, err_t* exp)
{
	octet* d = (octet*)c->a[13];
	exp[0] = ERR_BAD_OID;
	if (c->n[13] < 3)
		return 0; /* already shortened by another variant */
	switch (j)
	{
	case 0: d[0] = 0x05; return 1;                 /* wrong tag */
	case 1: d[1] = (octet)(c->n[13]); return 1;    /* length beyond the buffer */
	case 2: c->n[13] = 1; return 1;
	case 3: c->n[13] = 0; return 1;
	case 4: d[c->n[13] - 1] |= 0x80; return 1;     /* unterminated arc */
	case 5: d[1] = 0, c->n[13] = 2; return 1;      /* empty identifier: 06 00 */
	}
	return 0;
}

/* ------------------------------------------------------------ KeypairGen */
/* "for every output of the caller's generator": one draw in four is not uniform but the group
   order q plus a small number - a value below the field modulus p and not below q */
static void craft_above_order(fc_ctx* c)
{
	const bign_params* p = (const bign_params*)c->a[10];
	size_t no = p->l / 4, i;
	octet* v;
	unsigned add;
	if (fc_below(c, 4))
		return;
	v = fc_raw(c, no);
	memcpy(v, p->q, no);
	add = fc_below(c, 3);           /* q, q + 1, q + 2 (all < p for the standard curves) */
	for (i = 0; add && i < no; ++i)
	{
		unsigned t = v[i] + add;
		v[i] = (octet)t, add = t >> 8;
	}
	c->tape_mode = 3, c->craft = v, c->craft_len = no, c->craft_used = 0;
}
static void gen_KeypairGen(fc_ctx* c)
{
	load_params(c, 0);
	c->a[0] = fc_out(c, c->n[10] / 4);
	c->a[1] = fc_out(c, c->n[10] / 2);
	fc_mark_sec(c, c->a[0], c->n[10] / 4);
	craft_above_order(c);
}
static err_t call_KeypairGen(fc_ctx* c)
{
	err_t code;
	c->craft_used = 0;
	code = bignKeypairGen(c->a[0], c->a[1], c->a[10], FC_RNG(c), c);
	/* what key generation hands out must pass key-pair validation */
	if (code == ERR_OK && bignKeypairVal(c->a[10], c->a[0], c->a[1]) != ERR_OK)
		return ERR_BAD_LOGIC;
	return code;
}
static int bad_KeypairGen(fc_ctx* c, int j, err_t* exp)
{
	if (j < NBADPAR)
		return bad_params(c, j, exp);
	if (j == NBADPAR)
	{
		c->tape_mode = 1; /* dead generator: a fault, not a listed argument: any error */
		exp[0] = ERR_BAD_RNG, exp[1] = FC_ANYERR;
		return 2;
	}
	return 0;
}
static void gen_KeypairGen96(fc_ctx* c)
{
	load_params(c, 1);
	c->a[0] = fc_out(c, 24);
	c->a[1] = fc_out(c, 48);
	fc_mark_sec(c, c->a[0], 24);
	craft_above_order(c);
}
static err_t call_KeypairGen96(fc_ctx* c)
{
	err_t code;
	c->craft_used = 0;
	code = bign96KeypairGen(c->a[0], c->a[1], c->a[10], FC_RNG(c), c);
	if (code == ERR_OK && bign96KeypairVal(c->a[10], c->a[0], c->a[1]) != ERR_OK)
		return ERR_BAD_LOGIC;
	return code;
}

/* ------------------------------------------------- KeypairVal / PubkeyVal */
static void gen_KeypairVal(fc_ctx* c) { load_params(c, 0); make_keypair(c, 0, 11, 12); }
static err_t call_KeypairVal(fc_ctx* c) { return bignKeypairVal(c->a[10], c->a[11], c->a[12]); }
static int bad_KeypairVal(fc_ctx* c, int j, err_t* exp)
{
	if (j < NBADPAR)
		return bad_params(c, j, exp);
	j -= NBADPAR;
	if (j < 3)
		return bad_privkey(c, j, exp, 11);
	j -= 3;
	if (j < 4)
	{
		int n = bad_pubkey(c, j, exp, 12);
		return n;
	}
	return 0;
}
static void gen_KeypairVal96(fc_ctx* c) { load_params(c, 1); make_keypair(c, 1, 11, 12); }
static err_t call_KeypairVal96(fc_ctx* c) { return bign96KeypairVal(c->a[10], c->a[11], c->a[12]); }

static err_t call_PubkeyVal(fc_ctx* c) { return bignPubkeyVal(c->a[10], c->a[12]); }
static err_t call_PubkeyVal96(fc_ctx* c) { return bign96PubkeyVal(c->a[10], c->a[12]); }
static int bad_PubkeyVal(fc_ctx* c, int j, err_t* exp)
{
	if (j < NBADPAR)
		return bad_params(c, j, exp);
	return bad_pubkey(c, j - NBADPAR, exp, 12);
}

/* ------------------------------------------------------------ PubkeyCalc */
static void gen_PubkeyCalc(fc_ctx* c)
{
	load_params(c, 0);
	make_keypair(c, 0, 11, 12);
	c->a[0] = fc_out(c, c->n[10] / 2);
}
static err_t call_PubkeyCalc(fc_ctx* c) { return bignPubkeyCalc(c->a[0], c->a[10], c->a[11]); }
static int bad_PubkeyCalc(fc_ctx* c, int j, err_t* exp)
{
	if (j < NBADPAR)
		return bad_params(c, j, exp);
	return bad_privkey(c, j - NBADPAR, exp, 11);
}
static void gen_PubkeyCalc96(fc_ctx* c)
{
	load_params(c, 1);
	make_keypair(c, 1, 11, 12);
	c->a[0] = fc_out(c, 48);
}
static err_t call_PubkeyCalc96(fc_ctx* c) { return bign96PubkeyCalc(c->a[0], c->a[10], c->a[11]); }

/* -------------------------------------------------------------------- DH */
/* a0 key[n0], a11 my privkey, a12 peer pubkey */
static void gen_DH(fc_ctx* c)
{
	load_params(c, 0);
	make_keypair(c, 0, 11, 14);
	make_keypair(c, 0, 15, 12);
	c->nsecs = 1; /* the peer's private key is not this caller's secret */
	c->n[0] = 1 + fc_below(c, (uint32_t)(c->n[10] / 2));
	if (fc_below(c, 4) == 0)
		c->n[0] = c->n[10] / 2;
	c->a[0] = fc_out(c, c->n[0]);
	fc_mark_sec(c, c->a[0], c->n[0]); /* the shared secret is a secret output */
}
static err_t call_DH(fc_ctx* c) { return bignDH(c->a[0], c->a[10], c->a[11], c->a[12], c->n[0]); }
static int bad_DH(fc_ctx* c, int j, err_t* exp)
{
	if (j < NBADPAR)
		return bad_params(c, j, exp);
	j -= NBADPAR;
	if (j < 3)
		return bad_privkey(c, j, exp, 11);
	j -= 3;
	if (j < 4)
		return bad_pubkey(c, j, exp, 12);
	j -= 4;
	if (j < 2)
	{
		c->n[0] = c->n[10] / 2 + (j ? 100 : 1);
		c->nouts = 0, c->a[0] = fc_out(c, c->n[0]);
		exp[0] = ERR_BAD_SHAREDKEY;
		return 1;
	}
	return 0;
}

/* ------------------------------------------------------------ Sign/Verify */
/* a0 sig, a13 oid, a1 hash, a11 privkey, a2 t (Sign2), n2 t_len */
static void gen_sign_common(fc_ctx* c, int b96)
{
	size_t l;
	load_params(c, b96);
	l = c->n[10];
	load_oid(c);
	make_keypair(c, b96, 11, 12);
	c->a[1] = fc_pub(c, l / 4);
	switch (fc_below(c, 6))
	{
	case 0: memset(c->a[1], 0, l / 4); break;
	case 1: memset(c->a[1], 0xFF, l / 4); break;   /* hash >= q */
	}
	c->a[0] = fc_out(c, b96 ? 34 : 3 * l / 8);
}
static void gen_Sign(fc_ctx* c) { gen_sign_common(c, 0); }
static err_t call_Sign(fc_ctx* c) { return bignSign(c->a[0], c->a[10], c->a[13], c->n[13], c->a[1], c->a[11], FC_RNG(c), c); }
static void gen_Sign2(fc_ctx* c)
{
	static const size_t tl[] = { 0, 1, 16, 32, 33, 64, 100 };
	gen_sign_common(c, 0);
	c->n[2] = FC_PICK(c, tl);
	c->a[2] = fc_pub(c, c->n[2]);
}
static err_t call_Sign2(fc_ctx* c) { return bignSign2(c->a[0], c->a[10], c->a[13], c->n[13], c->a[1], c->a[11], c->a[2], c->n[2]); }
static int bad_sign_x(fc_ctx* c, int j, err_t* exp, int with_rng)
{
	if (j < NBADPAR)
		return bad_params(c, j, exp);
	j -= NBADPAR;
	if (j < 6)
		return bad_oid(c, j, exp);
	j -= 6;
	if (j < 3)
		return bad_privkey(c, j, exp, 11);
	j -= 3;
	if (j == 0 && with_rng)
	{
		c->tape_mode = 1; /* dead generator: a fault, not a listed argument: any error */
		exp[0] = ERR_BAD_RNG, exp[1] = FC_ANYERR;
		return 2;
	}
	return 0;
}
static int bad_Sign(fc_ctx* c, int j, err_t* exp) { return bad_sign_x(c, j, exp, 1); }
static int bad_Sign2(fc_ctx* c, int j, err_t* exp) { return bad_sign_x(c, j, exp, 0); }
static void gen_Sign96(fc_ctx* c) { gen_sign_common(c, 1); }
static err_t call_Sign96(fc_ctx* c) { return bign96Sign(c->a[0], c->a[10], c->a[13], c->n[13], c->a[1], c->a[11], FC_RNG(c), c); }
static void gen_Sign296(fc_ctx* c)
{
	gen_sign_common(c, 1);
	c->n[2] = fc_below(c, 40);
	c->a[2] = fc_pub(c, c->n[2]);
}
static err_t call_Sign296(fc_ctx* c) { return bign96Sign2(c->a[0], c->a[10], c->a[13], c->n[13], c->a[1], c->a[11], c->a[2], c->n[2]); }

/* Verify: a3 sig (valid, made on the harness side) */
static void gen_verify_common(fc_ctx* c, int b96)
{
	octet* s;
	gen_sign_common(c, b96);
	c->nouts = 0;
	s = fc_raw(c, b96 ? 34 : 3 * c->n[10] / 8);
	if (b96)
		bign96Sign2(s, c->a[10], c->a[13], c->n[13], c->a[1], c->a[11], 0, 0);
	else
		bignSign2(s, c->a[10], c->a[13], c->n[13], c->a[1], c->a[11], 0, 0);
	c->a[3] = s;
}
static void gen_Verify(fc_ctx* c) { gen_verify_common(c, 0); }
static void gen_Verify96(fc_ctx* c) { gen_verify_common(c, 1); }
static err_t call_Verify(fc_ctx* c) { return bignVerify(c->a[10], c->a[13], c->n[13], c->a[1], c->a[3], c->a[12]); }
static err_t call_Verify96(fc_ctx* c) { return bign96Verify(c->a[10], c->a[13], c->n[13], c->a[1], c->a[3], c->a[12]); }
static int bad_verify_x(fc_ctx* c, int j, err_t* exp, size_t siglen)
{
	if (j < NBADPAR)
		return bad_params(c, j, exp);
	j -= NBADPAR;
	if (j < 6)
	{
		int n = bad_oid(c, j, exp);
		return n;
	}
	j -= 6;
	if (j < 4)
	{
		int n = bad_pubkey(c, j, exp, 12);
		/* a still-on-curve but different key would be BAD_SIG; off-curve is BAD_PUBKEY */
		exp[n] = ERR_BAD_SIG;
		return n + 1;
	}
	j -= 4;
	exp[0] = ERR_BAD_SIG;
	switch (j)
	{
	case 0: ((octet*)c->a[3])[fc_below(c, (uint32_t)siglen)] ^= (octet)(1u << fc_below(c, 8)); return 1;
	case 1: ((octet*)c->a[1])[fc_below(c, (uint32_t)(c->n[10] / 4))] ^= 1; return 1;
	case 2: memset(c->a[3], 0, siglen); return 1;
	case 3: memset(c->a[3], 0xFF, siglen); return 1;
	}
	return 0;
}
static int bad_Verify(fc_ctx* c, int j, err_t* exp) { return bad_verify_x(c, j, exp, 3 * c->n[10] / 8); }
static int bad_Verify96(fc_ctx* c, int j, err_t* exp) { return bad_verify_x(c, j, exp, 34); }

/* ---------------------------------------------------------- Key transport */
/* Wrap: a0 token[l/4+16+len], a1 key,n1, a2 header/NULL, a12 pubkey */
static void gen_KeyWrap(fc_ctx* c)
{
	static const size_t kl[] = { 16, 17, 24, 32, 33, 48, 64 };
	load_params(c, 0);
	make_keypair(c, 0, 11, 12);
	c->nsecs = 0; /* the recipient's private key is not an input of this call */
	c->n[1] = FC_PICK(c, kl);
	c->a[1] = fc_sec(c, c->n[1]);
	c->a[2] = fc_below(c, 3) ? fc_pub(c, 16) : 0;
	c->a[0] = fc_out(c, c->n[10] / 4 + 16 + c->n[1]);
}
static err_t call_KeyWrap(fc_ctx* c) { return bignKeyWrap(c->a[0], c->a[10], c->a[1], c->n[1], c->a[2], c->a[12], FC_RNG(c), c); }
static int bad_KeyWrap(fc_ctx* c, int j, err_t* exp)
{
	if (j < NBADPAR)
		return bad_params(c, j, exp);
	j -= NBADPAR;
	if (j < 3)
	{
		static const size_t bl[] = { 0, 1, 15 };
		c->n[1] = bl[j];
		c->a[1] = fc_sec(c, c->n[1]);
		exp[0] = ERR_BAD_INPUT;
		return 1;
	}
	j -= 3;
	if (j < 4)
	{
		int n = bad_pubkey(c, j, exp, 12);
		/* The property lists "key or point not in range"; a point with
		   coordinates in range but off the curve (variants 0, 1) is accepted by
		   bignKeyWrap on the unchanged tree (it checks the range only, unlike
		   bignDH). Recorded as an observation in DESIGN.md, demanded softly. */
		if (n && j < 2)
			return FC_SOFT(exp);
		return n;
	}
	j -= 4;
	if (j == 0)
	{
		c->tape_mode = 1; /* dead generator: a fault, not a listed argument: any error */
		exp[0] = ERR_BAD_RNG, exp[1] = FC_ANYERR;
		return 2;
	}
	return 0;
}

/* Unwrap: a0 key[len-l/4-16], a1 token,n1, a2 header, a11 privkey */
static void gen_KeyUnwrap(fc_ctx* c)
{
	static const size_t kl[] = { 16, 17, 24, 32, 33, 48, 64 };
	size_t m, l;
	octet* k;
	load_params(c, 0);
	l = c->n[10];
	make_keypair(c, 0, 11, 12);
	m = FC_PICK(c, kl);
	k = fc_sec(c, m);
	c->a[2] = fc_below(c, 3) ? fc_pub(c, 16) : 0;
	c->n[1] = l / 4 + 16 + m;
	c->a[1] = fc_raw(c, c->n[1]);
	bignKeyWrap(c->a[1], c->a[10], k, m, c->a[2], c->a[12], fc_tape, c);
	fc_mark_pub(c, c->a[1], c->n[1]);
	c->a[0] = fc_out(c, m);
	c->plain = k, c->plain_len = m, c->dest = c->a[0], c->dest_len = m;
}
static err_t call_KeyUnwrap(fc_ctx* c) { return bignKeyUnwrap(c->a[0], c->a[10], c->a[1], c->n[1], c->a[2], c->a[11]); }
static int bad_KeyUnwrap(fc_ctx* c, int j, err_t* exp)
{
	if (j < NBADPAR)
		return bad_params(c, j, exp);
	j -= NBADPAR;
	if (j < 3)
	{
		int n = bad_privkey(c, j, exp, 11);
		return n;
	}
	j -= 3;
	exp[0] = ERR_BAD_KEYTOKEN;
	if (c->n[1] < 32 + c->n[10] / 4)
		return 0; /* already shortened by another variant */
	switch (j)
	{
	case 0: /* any token octet */
		((octet*)c->a[1])[fc_below(c, (uint32_t)c->n[1])] ^= (octet)(1u << fc_below(c, 8));
		return 1;
	case 1: /* last octet (header region) */
		((octet*)c->a[1])[c->n[1] - 1] ^= 0x80;
		return 1;
	case 2: /* header mismatch */
	{
		octet* h = fc_pub(c, 16);
		if (c->a[2])
			memcpy(h, c->a[2], 16), h[3] ^= 4;
		else
			h[0] |= 1;
		c->a[2] = h;
		return 1;
	}
	case 3: /* too short */
		c->n[1] = 31 + c->n[10] / 4;
		c->plain = 0;
		return 1;
	case 4:
		c->n[1] = 0;
		c->plain = 0;
		return 1;
	case 5: /* x coordinate of R replaced by p-ish garbage */
		memset(c->a[1], 0xFF, c->n[10] / 4);
		return 1;
	case 6:
	{
		/* a token made under a header that is zero but for one bit, presented without a header */
		octet h[16];
		if (!c->plain || c->n[1] != c->n[10] / 4 + 16 + c->plain_len)
			return 0;
		memset(h, 0, 16);
		h[fc_below(c, 16)] = (octet)(1u << fc_below(c, 8));
		if (bignKeyWrap(c->a[1], c->a[10], c->plain, c->plain_len, h, c->a[12], fc_tape, c) != ERR_OK)
			return 0;
		c->a[2] = 0;
		return 1;
	}
	}
	return 0;
}

/* --------------------------------------------------------------------- IBS */
/* IdExtract: a0 id_privkey, a1 id_pubkey, a13 oid, a2 id_hash, a3 sig (by TA), a12 TA pubkey */
static void gen_ibs_base(fc_ctx* c)
{
	size_t l;
	octet* s;
	load_params(c, 0);
	l = c->n[10];
	load_oid(c);
	make_keypair(c, 0, 11, 12);   /* trusted authority */
	c->a[2] = fc_pub(c, l / 4);
	s = fc_raw(c, 3 * l / 8);
	bignSign2(s, c->a[10], c->a[13], c->n[13], c->a[2], c->a[11], 0, 0);
	c->a[3] = s;
}
static void gen_IdExtract(fc_ctx* c)
{
	gen_ibs_base(c);
	c->nsecs = 0;
	c->a[0] = fc_out(c, c->n[10] / 4);
	c->a[1] = fc_out(c, c->n[10] / 2);
}
static err_t call_IdExtract(fc_ctx* c) { return bignIdExtract(c->a[0], c->a[1], c->a[10], c->a[13], c->n[13], c->a[2], c->a[3], c->a[12]); }
static int bad_IdExtract(fc_ctx* c, int j, err_t* exp)
{
	if (j < NBADPAR)
		return bad_params(c, j, exp);
	j -= NBADPAR;
	if (j < 6)
		return bad_oid(c, j, exp);
	j -= 6;
	if (j < 4)
	{
		int n = bad_pubkey(c, j, exp, 12);
		exp[n] = ERR_BAD_SIG;
		return n + 1;
	}
	j -= 4;
	if (j == 0)
	{
		((octet*)c->a[3])[fc_below(c, (uint32_t)(3 * c->n[10] / 8))] ^= 1;
		exp[0] = ERR_BAD_SIG;
		return 1;
	}
	if (j == 1)
	{
		/* s1 >= q */
		memset(c->a[3], 0xFF, 3 * c->n[10] / 8);
		exp[0] = ERR_BAD_SIG;
		return 1;
	}
	return 0;
}
/* IdSign: a0 id_sig, a2 id_hash, a4 hash, a5 id_privkey */
static void gen_idsign_common(fc_ctx* c)
{
	size_t l;
	octet *e, *V;
	gen_ibs_base(c);
	l = c->n[10];
	e = (octet*)sk_alloc(l / 4), V = (octet*)sk_alloc(l / 2);
	bignIdExtract(e, V, c->a[10], c->a[13], c->n[13], c->a[2], c->a[3], c->a[12]);
	c->nsecs = 0;
	fc_mark_sec(c, e, l / 4);
	c->a[5] = e, c->a[6] = V;
	c->a[4] = fc_pub(c, l / 4);
	c->a[0] = fc_out(c, 3 * l / 8);
}
static void gen_IdSign(fc_ctx* c) { gen_idsign_common(c); }
static err_t call_IdSign(fc_ctx* c) { return bignIdSign(c->a[0], c->a[10], c->a[13], c->n[13], c->a[2], c->a[4], c->a[5], FC_RNG(c), c); }
static void gen_IdSign2(fc_ctx* c)
{
	gen_idsign_common(c);
	c->n[7] = fc_below(c, 40);
	c->a[7] = fc_pub(c, c->n[7]);
}
static err_t call_IdSign2(fc_ctx* c) { return bignIdSign2(c->a[0], c->a[10], c->a[13], c->n[13], c->a[2], c->a[4], c->a[5], c->a[7], c->n[7]); }
static int bad_idsign_x(fc_ctx* c, int j, err_t* exp, int with_rng)
{
	if (j < NBADPAR)
		return bad_params(c, j, exp);
	j -= NBADPAR;
	if (j < 6)
		return bad_oid(c, j, exp);
	j -= 6;
	if (j < 3)
	{
		/* the header's condition is "obtained by bignIdExtract()", not a range;
		   e = 0 is in the image of that function, so it is demanded softly */
		int n = bad_privkey(c, j, exp, 5);
		return (n && j == 0) ? FC_SOFT(exp) : n;
	}
	j -= 3;
	if (j == 0 && with_rng)
	{
		c->tape_mode = 1; /* dead generator: a fault, not a listed argument: any error */
		exp[0] = ERR_BAD_RNG, exp[1] = FC_ANYERR;
		return 2;
	}
	return 0;
}
static int bad_IdSign(fc_ctx* c, int j, err_t* exp) { return bad_idsign_x(c, j, exp, 1); }
static int bad_IdSign2(fc_ctx* c, int j, err_t* exp) { return bad_idsign_x(c, j, exp, 0); }
/* IdVerify: a8 id_sig */
static void gen_IdVerify(fc_ctx* c)
{
	octet* s;
	gen_idsign_common(c);
	c->nouts = 0;
	s = fc_raw(c, 3 * c->n[10] / 8);
	bignIdSign2(s, c->a[10], c->a[13], c->n[13], c->a[2], c->a[4], c->a[5], 0, 0);
	c->a[8] = s;
	c->nsecs = 0;
}
static err_t call_IdVerify(fc_ctx* c) { return bignIdVerify(c->a[10], c->a[13], c->n[13], c->a[2], c->a[4], c->a[8], c->a[6], c->a[12]); }
static int bad_IdVerify(fc_ctx* c, int j, err_t* exp)
{
	if (j < NBADPAR)
		return bad_params(c, j, exp);
	j -= NBADPAR;
	if (j < 6)
		return bad_oid(c, j, exp);
	j -= 6;
	if (j < 4)
	{
		int n = bad_pubkey(c, j, exp, 12);
		exp[n] = ERR_BAD_SIG;
		return n + 1;
	}
	j -= 4;
	if (j < 4)
	{
		int n = bad_pubkey(c, j, exp, 6);
		exp[n] = ERR_BAD_SIG;
		return n + 1;
	}
	j -= 4;
	exp[0] = ERR_BAD_SIG;
	switch (j)
	{
	case 0: ((octet*)c->a[8])[fc_below(c, (uint32_t)(3 * c->n[10] / 8))] ^= 1; return 1;
	case 1: ((octet*)c->a[4])[0] ^= 1; return 1;
	case 2: ((octet*)c->a[2])[0] ^= 1; return 1;
	case 3: memset(c->a[8], 0xFF, 3 * c->n[10] / 8); return 1;   /* s1 >= q */
	}
	return 0;
}

/* -------------------------------------------------- params codec, validation */
static void gen_ParamsVal(fc_ctx* c) { load_params(c, 0); c->n[31] = 1; /* full validation demanded */ }
static err_t call_ParamsVal(fc_ctx* c) { return bignParamsVal(c->a[10]); }
static void gen_ParamsVal96(fc_ctx* c) { load_params(c, 1); c->n[31] = 1; }
static err_t call_ParamsVal96(fc_ctx* c) { return bign96ParamsVal(c->a[10]); }
static int bad_ParamsVal(fc_ctx* c, int j, err_t* exp) { return bad_params(c, j, exp); }

static void gen_ParamsEnc(fc_ctx* c)
{
	size_t n = 0;
	load_params(c, 0);
	bignParamsEnc(0, &n, c->a[10]);
	c->a[0] = fc_out(c, n);
	c->a[1] = fc_out(c, sizeof(size_t));
}
static err_t call_ParamsEnc(fc_ctx* c) { return bignParamsEnc(c->a[0], (size_t*)c->a[1], c->a[10]); }
static void gen_ParamsDec(fc_ctx* c)
{
	size_t n = 0;
	load_params(c, 0);
	bignParamsEnc(0, &n, c->a[10]);
	c->a[1] = fc_raw(c, n), c->n[1] = n;
	bignParamsEnc(c->a[1], &n, c->a[10]);
	c->a[0] = fc_out(c, sizeof(bign_params));
}
static err_t call_ParamsDec(fc_ctx* c) { return bignParamsDec(c->a[0], c->a[1], c->n[1]); }
static int bad_ParamsDec(fc_ctx* c, int j, err_t* exp)
{
	exp[0] = FC_ANYERR;
	if (c->n[1] < 4)
		return 0; /* already shortened by another variant */
	switch (j)
	{
	case 0: if (c->n[1] < 4) return 0; c->n[1] -= 1; c->a[1] = fc_cut(c, c->a[1], c->n[1]); return 1;   /* truncated code in a buffer of exactly that size */
	case 1: c->n[1] = 0; c->a[1] = fc_cut(c, c->a[1], 0); return 1;
	case 2: ((octet*)c->a[1])[0] ^= 1; return 1;
	case 3: ((octet*)c->a[1])[1] ^= 0x7F; return 1;
	case 4: if (c->n[1] < 3) return 0; c->n[1] = 3; c->a[1] = fc_cut(c, c->a[1], 3); return 1;
	case 5: if (c->n[1] < 4) return 0; c->n[1] = 1 + fc_below(c, (uint32_t)c->n[1] - 1); c->a[1] = fc_cut(c, c->a[1], c->n[1]); return 1;   /* any proper prefix */
	}
	return 0;
}

#define D(NAME, GEN, CALL, BAD, FLAGS) { NAME, GEN, CALL, BAD, FLAGS }
const fc_desc fc_bign[] = {
	D("bignKeypairGen", gen_KeypairGen, call_KeypairGen, bad_KeypairGen, FC_SECRET | FC_RNGARG),
	D("bignKeypairVal", gen_KeypairVal, call_KeypairVal, bad_KeypairVal, FC_SECRET),
	D("bignPubkeyVal", gen_KeypairVal, call_PubkeyVal, bad_PubkeyVal, 0),
	D("bignPubkeyCalc", gen_PubkeyCalc, call_PubkeyCalc, bad_PubkeyCalc, FC_SECRET),
	D("bignDH", gen_DH, call_DH, bad_DH, FC_SECRET),
	D("bignSign", gen_Sign, call_Sign, bad_Sign, FC_SECRET | FC_RNGARG),
	D("bignSign2", gen_Sign2, call_Sign2, bad_Sign2, FC_SECRET),
	D("bignVerify", gen_Verify, call_Verify, bad_Verify, 0),
	D("bignKeyWrap", gen_KeyWrap, call_KeyWrap, bad_KeyWrap, FC_SECRET | FC_RNGARG),
	D("bignKeyUnwrap", gen_KeyUnwrap, call_KeyUnwrap, bad_KeyUnwrap, FC_SECRET | FC_AUTH),
	D("bignIdExtract", gen_IdExtract, call_IdExtract, bad_IdExtract, FC_KEYOUT),
	D("bignIdSign", gen_IdSign, call_IdSign, bad_IdSign, FC_SECRET | FC_RNGARG),
	D("bignIdSign2", gen_IdSign2, call_IdSign2, bad_IdSign2, FC_SECRET),
	D("bignIdVerify", gen_IdVerify, call_IdVerify, bad_IdVerify, 0),
	D("bignParamsVal", gen_ParamsVal, call_ParamsVal, bad_ParamsVal, FC_SLOW),
	D("bignParamsEnc", gen_ParamsEnc, call_ParamsEnc, 0, 0),
	D("bignParamsDec", gen_ParamsDec, call_ParamsDec, bad_ParamsDec, 0),
	D("bign96KeypairGen", gen_KeypairGen96, call_KeypairGen96, bad_KeypairGen, FC_SECRET | FC_RNGARG),
	D("bign96KeypairVal", gen_KeypairVal96, call_KeypairVal96, bad_KeypairVal, FC_SECRET),
	D("bign96PubkeyVal", gen_KeypairVal96, call_PubkeyVal96, bad_PubkeyVal, 0),
	D("bign96PubkeyCalc", gen_PubkeyCalc96, call_PubkeyCalc96, bad_PubkeyCalc, FC_SECRET),
	D("bign96Sign", gen_Sign96, call_Sign96, bad_Sign, FC_SECRET | FC_RNGARG),
	D("bign96Sign2", gen_Sign296, call_Sign296, bad_Sign2, FC_SECRET),
	D("bign96Verify", gen_Verify96, call_Verify96, bad_Verify96, 0),
	D("bign96ParamsVal", gen_ParamsVal96, call_ParamsVal96, bad_ParamsVal, FC_SLOW),
};
const unsigned fc_bign_n = sizeof(fc_bign) / sizeof(fc_bign[0]);
