/* Descriptors, arithmetic layer part 3 (C07): functions without a scratch stack -
   machine-word strings (ww), linear integer operations (zz), loads/stores of
   u16/u32/u64 arrays, hex/base64/decimal codecs.  There is no stack to size here,
   but every operand and result is still an exact-size block (as small as the
   header's "reserved at address a: W_OF_B(pos + width) words" allows), so an access
   one word or one octet beyond it is an ASan report, and every result is compared
   across different garbage. */
#include "fc.h"
#include "bee2/core/mem.h"
#include "bee2/core/util.h"
#include "bee2/core/word.h"
#include "bee2/core/u16.h"
#include "bee2/core/u32.h"
#include "bee2/core/u64.h"
#include "bee2/core/hex.h"
#include "bee2/core/b64.h"
#include "bee2/core/dec.h"
#include "bee2/math/ww.h"
#include "bee2/math/zz.h"

#define W(n) ((n) * sizeof(word))
static size_t pick_n(fc_ctx* c, size_t lo, size_t hi) { return lo + fc_below(c, (uint32_t)(hi - lo + 1)); }
static word* wbuf(fc_ctx* c, size_t n)
{
	word* a = (word*)fc_pub(c, W(n ? n : 1));
	unsigned k = fc_below(c, 10);
	if (n && k == 0) memset(a, 0xFF, W(n));
	if (n && k == 1) memset(a, 0, W(n));
	if (n && k == 2) memset(a, 0, W(n)), a[n - 1] = (word)1 << (B_PER_W - 1);
	return a;
}
/* an output of n words; n == 0 gets a one-octet block that must stay untouched */
static word* wout(fc_ctx* c, size_t n) { return (word*)fc_out(c, n ? W(n) : 1); }

/* ---------------------------------------------------------------- ww bits */
static void gen_wwBits(fc_ctx* c)
{
	/* width 0 is formally allowed (width <= B_PER_W) but degenerate: wwGetBits would have to read
	   a word the header does not reserve and wwSetBits shifts by B_PER_W; not generated (DESIGN.md 12.3) */
	size_t width = fc_below(c, 4) == 0 ? B_PER_W : 1 + fc_below(c, B_PER_W);
	size_t pos = fc_below(c, 3) == 0 ? pick_n(c, 0, 4) * B_PER_W - (fc_below(c, 2) ? width % (B_PER_W + 1) : 0) + 4 * B_PER_W : fc_below(c, 5 * B_PER_W);
	size_t n;
	if (fc_below(c, 4) == 0)
		pos = (pos / B_PER_W + 1) * B_PER_W - width;      /* the field ends exactly at a word boundary */
	n = W_OF_B(pos + width);
	c->n[0] = pos, c->n[1] = width, c->n[2] = n;
	c->a[1] = wbuf(c, n);
	c->a[2] = wbuf(c, 1);
	c->a[0] = wout(c, n);
	c->a[4] = fc_out(c, sizeof(word) * 3);
	c->variant = (int)(width * 1000 + pos % B_PER_W);
}
static err_t call_wwBits(fc_ctx* c)
{
	size_t pos = c->n[0], width = c->n[1], n = c->n[2];
	word* r = (word*)c->a[4];
	word* a = (word*)c->a[0];
	wwCopy(a, c->a[1], n);
	r[0] = wwGetBits(a, pos, width);
	wwSetBits(a, pos, width, *(word*)c->a[2]);
	r[1] = wwGetBits(a, pos, width);
	r[2] = 0;
	{
		/* the field reads back, every bit outside it is untouched */
		const word* o = (const word*)c->a[1];
		size_t i;
		word want = *(word*)c->a[2];
		if (width < B_PER_W)
			want &= ((word)1 << width) - 1;
		if (r[1] != want)
			return ERR_BAD_LOGIC;
		for (i = 0; i < n * B_PER_W; ++i)
			if ((i < pos || i >= pos + width) && wwTestBit(a, i) != wwTestBit(o, i))
				return ERR_BAD_LOGIC;
	}
	if (width)
	{
		/* single bits live in W_OF_B(p + 1) words */
		size_t p = pos + width - 1;
		r[2] = (word)wwTestBit(a, p);
		wwFlipBit(a, p);
		r[2] |= (word)wwTestBit(a, p) << 1;
		wwSetBit(a, p, (bool_t)(r[0] & 1));
	}
	return ERR_OK;
}

/* -------------------------------------------------------------- ww shifts */
static void gen_wwShift(fc_ctx* c)
{
	size_t n = pick_n(c, 0, 9);
	size_t sh;
	switch (fc_below(c, 5))
	{
	case 0: sh = 0; break;
	case 1: sh = n * B_PER_W; break;
	case 2: sh = n * B_PER_W + fc_below(c, 130); break;
	case 3: sh = fc_below(c, (uint32_t)n + 1) * B_PER_W; break;
	default: sh = fc_below(c, (uint32_t)(n * B_PER_W + 1)); break;
	}
	c->n[0] = n, c->n[1] = sh;
	c->a[1] = wbuf(c, n), c->a[2] = wbuf(c, 1);
	c->a[0] = wout(c, n), c->a[4] = wout(c, n), c->a[5] = wout(c, n), c->a[6] = wout(c, n), c->a[7] = wout(c, n), c->a[8] = wout(c, n);
	c->a[9] = fc_out(c, sizeof(word) * 2);
	c->variant = (int)(n * 1000 + sh % 1000);
}
static err_t call_wwShift(fc_ctx* c)
{
	size_t n = c->n[0], sh = c->n[1];
	word* r = (word*)c->a[9];
	int i;
	for (i = 0; i < 6; ++i)
		if (n)
			wwCopy(c->a[i == 0 ? 0 : 3 + i], c->a[1], n);
	wwShLo(c->a[0], n, sh);
	wwShHi(c->a[4], n, sh);
	r[0] = wwShLoCarry(c->a[5], n, sh, *(word*)c->a[2]);
	r[1] = wwShHiCarry(c->a[6], n, sh, *(word*)c->a[2]);
	wwTrimLo(c->a[7], n, sh);
	wwTrimHi(c->a[8], n, sh);
	return ERR_OK;
}

/* ----------------------------------------------------------------- wwNAF */
static void gen_wwNAF(fc_ctx* c)
{
	size_t n = pick_n(c, 0, 10);
	size_t w = fc_below(c, 4) ? pick_n(c, 2, 7) : pick_n(c, 2, B_PER_W - 1);
	c->n[0] = n, c->n[1] = w;
	c->a[1] = wbuf(c, n);
	c->a[0] = wout(c, 2 * n + 1);
	c->a[4] = fc_out(c, sizeof(size_t));
	c->variant = (int)(n * 100 + w);
}
static err_t call_wwNAF(fc_ctx* c)
{
	size_t n = c->n[0], w = c->n[1], l, bits;
	word* naf = (word*)c->a[0];
	wwSetZero(naf, 2 * n + 1);
	l = wwNAF(naf, c->a[1], n, w);
	*(size_t*)c->a[4] = l;
	/* documented: l <= wwBitSize(a) + 1; and the code must fit 2n + 1 words */
	bits = wwBitSize(c->a[1], n);
	if (l > bits + 1)
		return ERR_BAD_LOGIC;
	return ERR_OK;
}

/* --------------------------------------------------------------- ww, misc */
static void gen_wwMisc(fc_ctx* c)
{
	size_t n = pick_n(c, 0, 8), m = pick_n(c, 0, 8);
	word* a = wbuf(c, n);
	word* b = wbuf(c, m);
	if (n && m && fc_below(c, 2))
	{
		/* make them equal on the common part */
		size_t k = n < m ? n : m;
		memcpy(b, a, W(k));
		if (fc_below(c, 2) && m > k) memset(b + k, 0, W(m - k));
		if (fc_below(c, 2) && n > k) memset(a + k, 0, W(n - k));
	}
	c->n[0] = n, c->n[1] = m;
	c->a[1] = a, c->a[2] = b, c->a[5] = wbuf(c, 1);
	c->a[0] = wout(c, n), c->a[4] = wout(c, n), c->a[6] = wout(c, n);
	c->a[7] = fc_out(c, sizeof(size_t) * 16);
	c->variant = (int)(n * 100 + m);
}
static err_t call_wwMisc(fc_ctx* c)
{
	size_t n = c->n[0], m = c->n[1], k = n < m ? n : m;
	const word* a = (const word*)c->a[1];
	const word* b = (const word*)c->a[2];
	word w = *(word*)c->a[5];
	size_t* r = (size_t*)c->a[7];
	memset(r, 0, sizeof(size_t) * 16);
	r[0] = wwWordSize(a, n), r[1] = wwOctetSize(a, n), r[2] = wwBitSize(a, n);
	r[3] = wwLoZeroBits(a, n), r[4] = wwHiZeroBits(a, n);
	r[5] = (size_t)(wwCmp2(a, n, b, m) + 1);
	r[6] = (size_t)(wwCmpW(a, n, w) + 1), r[7] = (size_t)wwIsW(a, n, w), r[8] = (size_t)wwIsRepW(a, n, w);
	r[9] = (size_t)wwIsZero(a, n);
	r[10] = (size_t)wwEq(a, b, k), r[11] = (size_t)(wwCmp(a, b, k) + 1);
	/* consistency that must hold by definition */
	if (r[1] != O_OF_B(r[2]) || r[0] != W_OF_B(r[2]) || (r[9] != (r[2] == 0)) || r[3] + r[4] > n * B_PER_W + (r[9] ? n * B_PER_W : 0))
		return ERR_BAD_LOGIC;
	if (n)
	{
		wwCopy(c->a[0], a, n);
		wwXor2(c->a[0], a, n);                     /* zero */
		wwXor(c->a[4], a, c->a[0], n);             /* a */
		wwSetW(c->a[0], n, w);
		wwRepW(c->a[6], n, w);
		wwSwap(c->a[0], c->a[6], n);
		r[12] = (size_t)wwIsRepW(c->a[0], n, w), r[13] = (size_t)wwIsW(c->a[6], n, w);
		if (!r[12] || !r[13] || !wwEq(c->a[4], a, n))
			return ERR_BAD_LOGIC;
	}
	return ERR_OK;
}

/* -------------------------------------------------------------- zz linear */
static void gen_zzLin(fc_ctx* c)
{
	size_t n = pick_n(c, 0, 10), m = pick_n(c, 0, n);
	c->n[0] = n, c->n[1] = m;
	c->a[1] = wbuf(c, n), c->a[2] = wbuf(c, n), c->a[5] = wbuf(c, m), c->a[6] = wbuf(c, 1);
	if (*(word*)c->a[6] == 0 || fc_below(c, 4) == 0)
		*(word*)c->a[6] = 1 + (word)fc_below(c, 65535);   /* w != 0, and w^2 <= B for zzModW2 in these runs */
	c->n[2] = *(word*)c->a[6] <= 65535;
	c->a[0] = wout(c, n), c->a[4] = wout(c, n), c->a[7] = wout(c, n), c->a[8] = wout(c, n), c->a[9] = wout(c, n), c->a[10] = wout(c, n);
	c->a[11] = fc_out(c, sizeof(word) * 16);
	c->variant = (int)(n * 100 + m);
}
static err_t call_zzLin(fc_ctx* c)
{
	size_t n = c->n[0], m = c->n[1];
	const word* a = (const word*)c->a[1];
	const word* b = (const word*)c->a[2];
	word w = *(word*)c->a[6];
	word* r = (word*)c->a[11];
	word* s = (word*)c->a[0];
	word* t = (word*)c->a[4];
	memset(r, 0, sizeof(word) * 16);
	r[0] = zzAdd(s, a, b, n);
	if (!zzIsSumEq(s, a, b, n) && r[0] == 0)
		return ERR_BAD_LOGIC;
	r[1] = zzSub(t, s, b, n);                       /* t = a, borrow = carry */
	if (r[0] != r[1] || (n && !wwEq(t, a, n)))
		return ERR_BAD_LOGIC;
	r[2] = zzAdd3(c->a[7], a, n, c->a[5], m);
	if (n) wwCopy(c->a[8], a, n);
	r[3] = zzAdd2(c->a[8], b, n);
	if (r[3] != r[0] || (n && !wwEq(c->a[8], s, n)))
		return ERR_BAD_LOGIC;
	r[4] = zzSub2(c->a[8], b, n);
	r[5] = zzAddW(c->a[9], a, n, w);
	r[6] = (word)zzIsSumWEq(c->a[9], a, n, w);
	if (n) wwCopy(c->a[10], c->a[9], n);
	r[7] = zzSubW2(c->a[10], n, w);
	if (n && (r[5] != r[7] || !wwEq(c->a[10], a, n)))
		return ERR_BAD_LOGIC;
	r[8] = zzSubW(c->a[9], a, n, w);
	r[9] = zzAddW2(c->a[9], n, w);
	zzNeg(c->a[10], a, n);
	r[10] = zzMulW(c->a[9], a, n, w);
	r[11] = zzDivW(c->a[10], a, n, w);
	r[12] = zzModW(a, n, w);
	if (r[11] != r[12])
		return ERR_BAD_LOGIC;
	if (c->n[2])
	{
		r[13] = zzModW2(a, n, w);
		if (r[13] != r[12])
			return ERR_BAD_LOGIC;
	}
	if (n) wwCopy(c->a[9], b, n);
	r[14] = zzAddMulW(c->a[9], a, n, w);
	r[15] = zzSubMulW(c->a[9], a, n, w);
	if (r[14] != r[15] || (n && !wwEq(c->a[9], b, n)))
		return ERR_BAD_LOGIC;
	r[15] ^= (word)zzIsEven(a, n) | (word)zzIsOdd(a, n) << 1;
	return ERR_OK;
}

/* ----------------------------------------------------------- zz mod-linear */
static void gen_zzModLin(fc_ctx* c)
{
	size_t n = pick_n(c, 1, 10);
	word* mod = wbuf(c, n);
	word* a = wbuf(c, n);
	word* b = wbuf(c, n);
	word* w = wbuf(c, 1);
	mod[n - 1] |= (word)1 << (B_PER_W - 1), mod[0] |= 1;        /* odd, top bit set */
	a[n - 1] &= WORD_MAX >> 1, b[n - 1] &= WORD_MAX >> 1;          /* a, b < mod */
	if (n == 1) w[0] &= WORD_MAX >> 1;                            /* w < mod */
	c->n[0] = n;
	c->a[1] = a, c->a[2] = b, c->a[3] = mod, c->a[5] = w;
	c->a[0] = wout(c, n), c->a[4] = wout(c, n), c->a[6] = wout(c, n), c->a[7] = wout(c, n), c->a[8] = wout(c, n);
	c->n[1] = fc_below(c, 3);
	c->variant = (int)(n * 10 + c->n[1]);
}
static err_t call_zzModLin(fc_ctx* c)
{
	size_t n = c->n[0];
	const word* a = (const word*)c->a[1];
	const word* b = (const word*)c->a[2];
	const word* mod = (const word*)c->a[3];
	word w = *(word*)c->a[5];
	word* s = (word*)c->a[0];
	word* t = (word*)c->a[4];
	zzAddMod(s, a, b, mod, n);
	zzSubMod(t, s, b, mod, n);
	if (!wwEq(t, a, n) || wwCmp(s, mod, n) >= 0)
		return ERR_BAD_LOGIC;
	zzNegMod(c->a[6], a, mod, n);
	zzAddMod(t, c->a[6], a, mod, n);
	if (!wwIsZero(t, n))
		return ERR_BAD_LOGIC;
	zzAddWMod(c->a[7], a, w, mod, n);
	zzSubWMod(t, c->a[7], w, mod, n);
	if (!wwEq(t, a, n))
		return ERR_BAD_LOGIC;
	zzDoubleMod(c->a[8], a, mod, n);
	zzHalfMod(t, c->a[8], mod, n);
	if (!wwEq(t, a, n))
		return ERR_BAD_LOGIC;
	/* in place */
	wwCopy(t, a, n);
	zzDoubleMod(t, t, mod, n);
	if (!wwEq(t, c->a[8], n))
		return ERR_BAD_LOGIC;
	/* random residues from the caller's generator */
	c->tape_mode = (int)c->n[1];
	if (zzRandMod(t, mod, n, fc_tape, c) && wwCmp(t, mod, n) >= 0)
		return ERR_BAD_LOGIC;
	if (zzRandNZMod(c->a[6], mod, n, fc_tape, c) && (wwCmp(c->a[6], mod, n) >= 0 || wwIsZero(c->a[6], n)))
		return ERR_BAD_LOGIC;
	return ERR_OK;
}

/* ----------------------------------------------------- u16/u32/u64 load/store */
static void gen_uFromTo(fc_ctx* c)
{
	size_t count = fc_below(c, 70);
	c->n[0] = count;
	c->a[1] = fc_pub(c, count ? count : 1);
	c->a[0] = fc_out(c, (count + 1) / 2 * 2 + (count ? 0 : 1));
	c->a[4] = fc_out(c, (count + 3) / 4 * 4 + (count ? 0 : 1));
	c->a[5] = fc_out(c, (count + 7) / 8 * 8 + (count ? 0 : 1));
	c->a[6] = fc_out(c, count ? count : 1), c->a[7] = fc_out(c, count ? count : 1), c->a[8] = fc_out(c, count ? count : 1);
	c->variant = (int)count;
}
static err_t call_uFromTo(fc_ctx* c)
{
	size_t count = c->n[0];
	u16From(c->a[0], c->a[1], count);
	u32From(c->a[4], c->a[1], count);
	u64From(c->a[5], c->a[1], count);
	u16To(c->a[6], count, c->a[0]);
	u32To(c->a[7], count, c->a[4]);
	u64To(c->a[8], count, c->a[5]);
	if (count && (memcmp(c->a[6], c->a[1], count) || memcmp(c->a[7], c->a[1], count) || memcmp(c->a[8], c->a[1], count)))
		return ERR_BAD_LOGIC;
	return ERR_OK;
}

/* ------------------------------------------------------------------ codecs */
static void gen_hex(fc_ctx* c)
{
	size_t count = fc_below(c, 40);
	c->n[0] = count;
	c->a[1] = fc_pub(c, count ? count : 1);
	c->a[0] = fc_out(c, 2 * count + 1), c->a[4] = fc_out(c, 2 * count + 1);
	c->a[5] = fc_out(c, count ? count : 1), c->a[6] = fc_out(c, count ? count : 1);
	c->a[7] = fc_out(c, sizeof(int) * 4);
	c->n[1] = fc_below(c, 3);     /* 0 as is, 1 lower case, 2 one invalid character */
	c->variant = (int)(count * 10 + c->n[1]);
}
static err_t call_hex(fc_ctx* c)
{
	size_t count = c->n[0];
	char* h = (char*)c->a[0];
	char* hr = (char*)c->a[4];
	int* r = (int*)c->a[7];
	hexFrom(h, c->a[1], count);
	hexFromRev(hr, c->a[1], count);
	if (c->n[1] == 1) hexLower(h);
	r[0] = hexIsValid(h), r[1] = hexEq(c->a[1], h), r[2] = hexEqRev(c->a[1], hr);
	if (!r[0] || !r[1] || !r[2])
		return ERR_BAD_LOGIC;
	hexTo(c->a[5], h);
	hexToRev(c->a[6], hr);
	if (count && (memcmp(c->a[5], c->a[1], count) || memcmp(c->a[6], c->a[1], count)))
		return ERR_BAD_LOGIC;
	if (c->n[1] == 2 && count)
	{
		h[fc_below(c, (uint32_t)(2 * count))] = 'g';
		r[3] = hexIsValid(h);
		if (r[3])
			return ERR_BAD_LOGIC;
	}
	return ERR_OK;
}
static void gen_b64(fc_ctx* c)
{
	size_t count = fc_below(c, 50);
	c->n[0] = count;
	c->a[1] = fc_pub(c, count ? count : 1);
	c->a[0] = fc_out(c, (count + 2) / 3 * 4 + 1);
	c->a[4] = fc_out(c, count ? count : 1);
	c->a[5] = fc_out(c, sizeof(size_t) * 2);
	c->variant = (int)count;
}
static err_t call_b64(fc_ctx* c)
{
	size_t count = c->n[0];
	char* s = (char*)c->a[0];
	size_t* r = (size_t*)c->a[5];
	b64From(s, c->a[1], count);
	r[0] = (size_t)b64IsValid(s);
	if (!r[0])
		return ERR_BAD_LOGIC;
	r[1] = 0;
	b64To(0, &r[1], s);                 /* length query */
	if (r[1] != count)
		return ERR_BAD_LOGIC;
	b64To(c->a[4], &r[1], s);
	if (r[1] != count || (count && memcmp(c->a[4], c->a[1], count)))
		return ERR_BAD_LOGIC;
	return ERR_OK;
}
static void gen_dec(fc_ctx* c)
{
	c->a[1] = fc_pub(c, 16);
	c->n[0] = 1 + fc_below(c, 10);       /* digits for u32 */
	c->n[1] = 1 + fc_below(c, 20);       /* digits for u64 */
	c->a[0] = fc_out(c, c->n[0] + 1), c->a[4] = fc_out(c, c->n[1] + 1);
	c->a[5] = fc_out(c, sizeof(u64) * 4);
	c->variant = (int)(c->n[0] * 100 + c->n[1]);
}
static err_t call_dec(fc_ctx* c)
{
	u32 v32;
	u64 v64;
	u64* r = (u64*)c->a[5];
	char* d32 = (char*)c->a[0];
	char* d64 = (char*)c->a[4];
	memcpy(&v32, c->a[1], 4), memcpy(&v64, (octet*)c->a[1] + 8, 8);
	/* count digits: the value modulo 10^count is written */
	decFromU32(d32, c->n[0], v32);
	decFromU64(d64, c->n[1], v64);
	r[0] = (u64)decIsValid(d32), r[1] = (u64)decIsValid(d64);
	if (!r[0] || !r[1] || strlen(d32) != c->n[0] || strlen(d64) != c->n[1])
		return ERR_BAD_LOGIC;
	r[2] = decToU32(d32), r[3] = decToU64(d64);
	if (c->n[0] == 10 && r[2] != v32)
		return ERR_BAD_LOGIC;
	if (c->n[1] == 20 && r[3] != v64)
		return ERR_BAD_LOGIC;
	r[0] |= (u64)decCLZ(d32) << 8;
	r[1] |= (u64)decLuhnVerify(d64) << 8 | (u64)decDammVerify(d64) << 9;
	return ERR_OK;
}

#define D(NAME, GEN, CALL) { NAME, GEN, CALL, 0, FC_MATH }
const fc_desc fc_ww[] = {
	D("wwGetBits/SetBits/TestBit/FlipBit", gen_wwBits, call_wwBits),
	D("wwShLo/ShHi/Carry/TrimLo/TrimHi", gen_wwShift, call_wwShift),
	D("wwNAF", gen_wwNAF, call_wwNAF),
	D("ww sizes and comparisons", gen_wwMisc, call_wwMisc),
	D("zz additive ops", gen_zzLin, call_zzLin),
	D("zz additive ops mod", gen_zzModLin, call_zzModLin),
	D("u16/u32/u64 From/To", gen_uFromTo, call_uFromTo),
	D("hex codec", gen_hex, call_hex),
	D("b64 codec", gen_b64, call_b64),
	D("dec codec", gen_dec, call_dec),
};
const unsigned fc_ww_n = sizeof(fc_ww) / sizeof(fc_ww[0]);
