/* Descriptors (C07): small helpers that no other engine executes (tools/coverage.sh
   lists functions with zero executions): string and blob utilities, array byte
   reversal, apdu encoders/decoders, FIPS tests of the generator, CV-certificate
   length, belt block/key primitives, belt-wbl re-encryption.  Exact-size buffers
   on the simulated heap; results compared across garbage; round-trip and inverse
   relations as functional self-checks. */
#include "fc.h"
#include "b2util.h"
#include "bee2/core/apdu.h"
#include "bee2/core/blob.h"
#include "bee2/core/mem.h"
#include "bee2/core/rng.h"
#include "bee2/core/str.h"
#include "bee2/core/u16.h"
#include "bee2/core/u32.h"
#include "bee2/core/u64.h"
#include "bee2/core/util.h"
#include "bee2/core/dec.h"
#include "bee2/core/hex.h"
#include "bee2/crypto/belt.h"
#include "bee2/crypto/btok.h"

/* ------------------------------------------------------------- strings */
static void gen_str(fc_ctx* c)
{
	static const char ALPHA[] = "0123456789ABCDEFGHIJKLMNOPQRSTUVWXYZabcdefghijklmnopqrstuvwxyz '()+,-./:=?";
	size_t n = fc_below(c, 40), i, sfx;
	char* s = (char*)fc_pub(c, n + 1);
	unsigned kind = fc_below(c, 4);
	for (i = 0; i < n; ++i)
		s[i] = kind == 0 ? (char)('0' + (octet)s[i] % 10) : kind == 1 ? ALPHA[(octet)s[i] % 62] : kind == 2 ? ALPHA[(octet)s[i] % (sizeof(ALPHA) - 1)] : (char)(1 + (octet)s[i] % 255);
	s[n] = 0;
	sfx = n ? fc_below(c, (uint32_t)n + 1) : 0;
	c->a[1] = s, c->n[0] = n, c->n[1] = sfx, c->n[2] = fc_below(c, 50);
	c->a[0] = fc_out(c, n + 1), c->a[4] = fc_out(c, n + 1), c->a[5] = fc_out(c, n + 1);
	c->a[6] = fc_out(c, sizeof(size_t) * 8);
	c->variant = (int)(kind * 100 + n);
}
static err_t call_str(fc_ctx* c)
{
	const char* s = (const char*)c->a[1];
	size_t n = c->n[0];
	size_t* r = (size_t*)c->a[6];
	char* t = (char*)c->a[0];
	char* u = (char*)c->a[4];
	char* v = (char*)c->a[5];
	memset(r, 0, sizeof(size_t) * 8);
	r[0] = strLen(s), r[1] = strLen2(s, c->n[2]);
	if (r[0] != n || r[1] != (n < c->n[2] ? n : c->n[2]))
		return ERR_BAD_LOGIC;
	strCopy(t, s);
	strCopy(u, s);
	strRev(u);
	strCopy(v, u);
	strRev(v);
	if (!strEq(t, s) || !strEq(v, s) || strCmp(t, s) != 0)
		return ERR_BAD_LOGIC;
	r[2] = (size_t)strIsNumeric(s), r[3] = (size_t)strIsAlphanumeric(s), r[4] = (size_t)strIsPrintable(s);
	r[5] = (size_t)strEndsWith(s, s + (n - c->n[1])), r[6] = (size_t)strStartsWith(s, u);
	if (!r[5])
		return ERR_BAD_LOGIC;   /* every suffix is a suffix */
	strSet(v, 'x');
	if (strLen(v) != n)
		return ERR_BAD_LOGIC;
	return ERR_OK;
}

/* --------------------------------------------------------------- blobs */
static void gen_blob(fc_ctx* c)
{
	c->n[0] = 1 + fc_below(c, 300), c->n[1] = fc_below(c, 300);
	c->a[1] = fc_pub(c, c->n[0]);
	c->a[0] = fc_out(c, c->n[0]);
	c->a[4] = fc_out(c, sizeof(int) * 4);
	c->variant = (int)(c->n[0] * 1000 + c->n[1]);
}
static err_t call_blob(fc_ctx* c)
{
	int* r = (int*)c->a[4];
	blob_t a = blobCreate(c->n[0]), b = 0, t;
	memset(r, 0, sizeof(int) * 4);
	memset(c->a[0], 0, c->n[0]);
	if (!a)
		return ERR_OUTOFMEMORY;
	memcpy(a, c->a[1], c->n[0]);
	b = blobCopy(0, a);
	if (!b)
	{
		blobClose(a);
		return ERR_OUTOFMEMORY;
	}
	r[0] = blobEq(a, b), r[1] = blobCmp(a, b);
	if (!r[0] || r[1] != 0 || blobSize(b) != c->n[0])
	{
		blobClose(a), blobClose(b);
		return ERR_BAD_LOGIC;
	}
	memcpy(c->a[0], b, c->n[0]);
	/* resize: grown part is zero, kept part is kept */
	t = blobResize(b, c->n[1]);
	if (c->n[1] && !t)
	{
		blobClose(a), blobClose(b);
		return ERR_OUTOFMEMORY;
	}
	b = t;
	if (b)
	{
		size_t k = c->n[0] < c->n[1] ? c->n[0] : c->n[1], i;
		if (memcmp(b, a, k))
			r[2] = 1;
		for (i = k; i < c->n[1]; ++i)
			if (((octet*)b)[i])
				r[2] = 1;
		r[3] = blobCmp(a, b) + 2;
		blobWipe(b);
	}
	blobClose(a), blobClose(b);
	return r[2] ? ERR_BAD_LOGIC : ERR_OK;
}

/* ------------------------------------------------- byte reversal, memXor */
static void gen_rev(fc_ctx* c)
{
	size_t n = fc_below(c, 20);
	c->n[0] = n;
	c->a[1] = fc_pub(c, 8 * n + 1);
	c->a[0] = fc_out(c, 2 * n + 1), c->a[4] = fc_out(c, 4 * n + 1), c->a[5] = fc_out(c, 8 * n + 1);
	c->a[6] = fc_out(c, 8 * n + 1), c->a[7] = fc_out(c, 8 * n + 1);
	c->variant = (int)n;
}
static err_t call_rev(fc_ctx* c)
{
	size_t n = c->n[0], i;
	octet* p = (octet*)c->a[1];
	memcpy(c->a[0], p, 2 * n), memcpy(c->a[4], p, 4 * n), memcpy(c->a[5], p, 8 * n);
	u16Rev2(c->a[0], n), u32Rev2(c->a[4], n), u64Rev2(c->a[5], n);
	for (i = 0; i < n; ++i)
		if (((octet*)c->a[0])[2 * i] != p[2 * i + 1] || ((octet*)c->a[4])[4 * i] != p[4 * i + 3] || ((octet*)c->a[5])[8 * i] != p[8 * i + 7])
			return ERR_BAD_LOGIC;
	memXor(c->a[6], c->a[5], p, 8 * n);
	memcpy(c->a[7], c->a[5], 8 * n);
	memXor2(c->a[7], p, 8 * n);
	if (memcmp(c->a[6], c->a[7], 8 * n))
		return ERR_BAD_LOGIC;
	memRev(c->a[7], 8 * n);
	memSwap(c->a[6], c->a[7], 8 * n);
	return ERR_OK;
}

/* ---------------------------------------------------------------- apdu */
static void gen_apdu(fc_ctx* c)
{
	static const size_t lens[] = { 0, 1, 2, 255, 256, 257, 300 };
	static const size_t les[] = { 0, 1, 255, 256, 257, 65535, 65536 };
	size_t cdf = fc_below(c, 2) ? FC_PICK(c, lens) : fc_below(c, 301);
	apdu_cmd_t* cmd = (apdu_cmd_t*)fc_raw(c, sizeof(apdu_cmd_t) + cdf);
	size_t rdf = fc_below(c, 2) ? FC_PICK(c, lens) : fc_below(c, 301);
	apdu_resp_t* resp = (apdu_resp_t*)fc_raw(c, sizeof(apdu_resp_t) + rdf);
	octet* rnd = fc_pub(c, 8);
	memset(cmd, 0, sizeof(apdu_cmd_t)), memset(resp, 0, sizeof(apdu_resp_t));
	cmd->cla = rnd[0] & 0xFB, cmd->ins = rnd[1], cmd->p1 = rnd[2], cmd->p2 = rnd[3];
	cmd->cdf_len = cdf, cmd->rdf_len = FC_PICK(c, les);
	sk_bytes(&c->rng, cmd->cdf, cdf);
	resp->sw1 = rnd[4], resp->sw2 = rnd[5], resp->rdf_len = rdf;
	sk_bytes(&c->rng, resp->rdf, rdf);
	c->a[1] = cmd, c->a[2] = resp;
	c->n[0] = cdf, c->n[1] = rdf;
	c->n[2] = apduCmdIsValid(cmd) ? apduCmdEnc(0, cmd) : SIZE_MAX;
	c->n[3] = apduRespIsValid(resp) ? apduRespEnc(0, resp) : SIZE_MAX;
	c->a[0] = fc_out(c, c->n[2] == SIZE_MAX ? 1 : c->n[2]);
	c->a[4] = fc_out(c, c->n[3] == SIZE_MAX ? 1 : c->n[3]);
	c->a[5] = fc_out(c, sizeof(apdu_cmd_t) + cdf), c->a[6] = fc_out(c, sizeof(apdu_resp_t) + rdf);
	c->a[7] = fc_out(c, sizeof(size_t) * 4);
	c->n[4] = fc_below(c, 3);     /* decoders also see a truncated / extended / bit-flipped code */
	c->variant = (int)(cdf * 1000 + rdf);
}
static err_t call_apdu(fc_ctx* c)
{
	apdu_cmd_t* cmd = (apdu_cmd_t*)c->a[1];
	apdu_resp_t* resp = (apdu_resp_t*)c->a[2];
	apdu_cmd_t* cmd1 = (apdu_cmd_t*)c->a[5];
	apdu_resp_t* resp1 = (apdu_resp_t*)c->a[6];
	size_t* r = (size_t*)c->a[7];
	memset(r, 0, sizeof(size_t) * 4);
	memset(cmd1, 0, sizeof(apdu_cmd_t) + c->n[0]), memset(resp1, 0, sizeof(apdu_resp_t) + c->n[1]);
	if (c->n[2] != SIZE_MAX)
	{
		if (apduCmdEnc(c->a[0], cmd) != c->n[2])
			return ERR_BAD_LOGIC;
		r[0] = apduCmdDec(0, c->a[0], c->n[2]);
		if (r[0] != sizeof(apdu_cmd_t) + c->n[0] || apduCmdDec(cmd1, c->a[0], c->n[2]) != r[0])
			return ERR_BAD_LOGIC;
		if (cmd1->cla != cmd->cla || cmd1->ins != cmd->ins || cmd1->p1 != cmd->p1 || cmd1->p2 != cmd->p2 ||
			cmd1->cdf_len != cmd->cdf_len || cmd1->rdf_len != cmd->rdf_len || memcmp(cmd1->cdf, cmd->cdf, cmd->cdf_len))
			return ERR_BAD_LOGIC;
		/* the decoder on codes it did not produce: shorter prefixes (exact-size copies) */
		if (c->n[4] && c->n[2] > 1)
		{
			size_t k = fc_below(c, (uint32_t)c->n[2]);
			octet* cut = (octet*)sk_alloc(k ? k : 1);
			memcpy(cut, c->a[0], k);
			r[1] = apduCmdDec(0, cut, k);
			if (r[1] != SIZE_MAX && r[1] > sizeof(apdu_cmd_t) + k)
				return ERR_BAD_LOGIC;   /* more command data than code octets */
		}
	}
	if (c->n[3] != SIZE_MAX)
	{
		if (apduRespEnc(c->a[4], resp) != c->n[3])
			return ERR_BAD_LOGIC;
		r[2] = apduRespDec(0, c->a[4], c->n[3]);
		if (r[2] != sizeof(apdu_resp_t) + c->n[1] || apduRespDec(resp1, c->a[4], c->n[3]) != r[2])
			return ERR_BAD_LOGIC;
		if (resp1->sw1 != resp->sw1 || resp1->sw2 != resp->sw2 || resp1->rdf_len != resp->rdf_len || memcmp(resp1->rdf, resp->rdf, resp->rdf_len))
			return ERR_BAD_LOGIC;
		if (c->n[4] && c->n[3] > 1)
		{
			size_t k = fc_below(c, (uint32_t)c->n[3]);
			octet* cut = (octet*)sk_alloc(k ? k : 1);
			memcpy(cut, c->a[4], k);
			r[3] = apduRespDec(0, cut, k);
		}
	}
	return ERR_OK;
}

/* -------------------------------------------------- FIPS tests, CVC length */
static void gen_fips(fc_ctx* c)
{
	octet* b = fc_pub(c, 2500);
	unsigned k = fc_below(c, 6);
	if (k == 0) memset(b, 0, 2500);
	if (k == 1) memset(b, 0x55, 2500);
	if (k == 2) memset(b + fc_below(c, 2400), 0xFF, 5);     /* a long run */
	if (k == 3) memset(b + 2495, 0, 5);                     /* a run that ends with the buffer */
	c->a[1] = b;
	c->a[0] = fc_out(c, sizeof(int) * 4);
	c->variant = (int)k;
}
static err_t call_fips(fc_ctx* c)
{
	int* r = (int*)c->a[0];
	r[0] = rngTestFIPS1(c->a[1]), r[1] = rngTestFIPS2(c->a[1]), r[2] = rngTestFIPS3(c->a[1]), r[3] = rngTestFIPS4(c->a[1]);
	return ERR_OK;
}
static void gen_cvclen(fc_ctx* c)
{
	size_t n = fc_below(c, 300), claimed;
	octet* d = fc_pub(c, n ? n : 1);
	unsigned k = fc_below(c, 4);
	/* a plausible outer header 7F 21 <len> with a length field of every form */
	if (n >= 5 && k)
	{
		claimed = fc_below(c, 2) ? n - 5 + fc_below(c, 8) : fc_below(c, 70000);
		d[0] = 0x7F, d[1] = 0x21;
		if (k == 1 && claimed < 128) d[2] = (octet)claimed;
		else if (k == 2) d[2] = 0x81, d[3] = (octet)claimed;
		else d[2] = 0x82, d[3] = (octet)(claimed >> 8), d[4] = (octet)claimed;
	}
	c->a[1] = d, c->n[0] = n;
	c->a[0] = fc_out(c, sizeof(size_t));
	c->variant = (int)(k * 1000 + n);
}
static err_t call_cvclen(fc_ctx* c)
{
	size_t l = btokCVCLen(c->a[1], c->n[0]);
	*(size_t*)c->a[0] = l;
	if (l != SIZE_MAX && l > c->n[0])
		return ERR_BAD_LOGIC;   /* "the certificate placed in the prefix of [count]der" */
	return ERR_OK;
}

/* ------------------------------------------------------ belt primitives */
static void gen_beltprim(fc_ctx* c)
{
	static const size_t kl[] = { 16, 24, 32 };
	c->n[0] = FC_PICK(c, kl);
	c->a[1] = fc_pub(c, c->n[0]);
	c->a[2] = fc_pub(c, 16);
	c->n[1] = 32 + fc_below(c, 70);
	c->a[3] = fc_pub(c, c->n[1]);
	c->a[0] = fc_out(c, 32), c->a[4] = fc_out(c, 16), c->a[5] = fc_out(c, 16), c->a[6] = fc_out(c, c->n[1]);
	c->variant = (int)(c->n[0] * 1000 + c->n[1]);
}
static err_t call_beltprim(fc_ctx* c)
{
	u32 key[8], blk[4], b3[4];
	octet* st = (octet*)sk_alloc(beltWBL_keep());
	beltKeyExpand(c->a[0], c->a[1], c->n[0]);
	beltKeyExpand2(key, c->a[1], c->n[0]);
	/* decr2/decr3 invert encr2/encr3 */
	u32From(blk, c->a[2], 16);
	memcpy(b3, blk, 16);
	beltBlockEncr2(blk, key);
	beltBlockEncr3(b3, b3 + 1, b3 + 2, b3 + 3, key);
	if (memcmp(blk, b3, 16))
		return ERR_BAD_LOGIC;
	u32To(c->a[4], 16, blk);
	beltBlockDecr2(blk, key);
	beltBlockDecr3(b3, b3 + 1, b3 + 2, b3 + 3, key);
	u32To(c->a[5], 16, blk);
	if (memcmp(blk, b3, 16) || memcmp(c->a[5], c->a[2], 16))
		return ERR_BAD_LOGIC;
	/* belt-wbl: StepR = one more encryption with the round counter kept */
	memcpy(c->a[6], c->a[3], c->n[1]);
	beltWBLStart(st, c->a[1], c->n[0]);
	beltWBLStepE(c->a[6], c->n[1], st);
	beltWBLStepR(c->a[6], c->n[1], st);
	beltWBLStepR(c->a[6], c->n[1], st);
	return ERR_OK;
}

/* small helpers no other descriptor reaches (tools/coverage.sh): the echo generator on a state of
   exactly prngEcho_keep() and a seed of exactly seed_len octets, Luhn digits and hex case on
   strings in blocks of exactly strlen + 1, CRC32 piecewise, errMsg, memIsAligned */
#include "bee2/core/prng.h"
#include "bee2/core/err.h"
static void gen_small(fc_ctx* c)
{
	size_t i;
	char* dec;
	char* hex;
	c->n[0] = 1 + fc_below(c, 40);           /* seed_len */
	c->a[1] = fc_pub(c, c->n[0]);
	c->n[1] = fc_below(c, 130);              /* octets drawn */
	c->a[0] = fc_out(c, c->n[1] ? c->n[1] : 1);
	c->n[2] = 1 + fc_below(c, 24);           /* decimal digits */
	dec = (char*)fc_pub(c, c->n[2] + 2);
	for (i = 0; i < c->n[2]; ++i)
		dec[i] = (char)('0' + (octet)dec[i] % 10);
	dec[c->n[2]] = 0, dec[c->n[2] + 1] = 0;
	c->a[2] = dec;
	c->n[3] = 2 * fc_below(c, 20);
	hex = (char*)fc_pub(c, c->n[3] + 1);
	for (i = 0; i < c->n[3]; ++i)
		hex[i] = "0123456789abcdefABCDEF"[(octet)hex[i] % 22];
	hex[c->n[3]] = 0;
	c->a[3] = hex;
	c->n[4] = fc_below(c, 200);
	c->a[4] = fc_pub(c, c->n[4]);
	c->a[5] = fc_out(c, 8 * sizeof(size_t));
	c->a[6] = fc_out(c, c->n[3] + 1);
	c->variant = (int)c->n[0];
}
static err_t call_small(fc_ctx* c)
{
	size_t* r = (size_t*)c->a[5];
	octet* out = (octet*)c->a[0];
	const octet* seed = (const octet*)c->a[1];
	char* dec = (char*)c->a[2];
	char* hx = (char*)c->a[6];
	void* st = sk_alloc(prngEcho_keep());
	size_t i, cut;
	u32 crc1, crc2;
	memset(r, 0, 8 * sizeof(size_t));
	/* echo generator: the seed, repeated; in two pieces as well */
	prngEchoStart(st, seed, c->n[0]);
	cut = c->n[1] ? c->n[1] / 3 : 0;
	prngEchoStepR(out, cut, st);
	prngEchoStepR(out + cut, c->n[1] - cut, st);
	sk_free(st);
	for (i = 0; i < c->n[1]; ++i)
		if (out[i] != seed[i % c->n[0]])
			return ERR_BAD_LOGIC;
	/* Luhn: the computed digit appended verifies, any other digit does not */
	{
		char d = decLuhnCalc(dec);
		if (d < '0' || d > '9')
			return ERR_BAD_LOGIC;
		dec[c->n[2]] = d;
		r[0] = (size_t)decLuhnVerify(dec);
		dec[c->n[2]] = (char)('0' + (d - '0' + 1 + (int)fc_below(c, 9)) % 10);
		r[1] = (size_t)decLuhnVerify(dec);
		dec[c->n[2]] = 0;
		if (!r[0] || r[1])
			return ERR_BAD_LOGIC;
	}
	/* hex case */
	memcpy(hx, c->a[3], c->n[3] + 1);
	hexUpper(hx);
	for (i = 0; i < c->n[3]; ++i)
		if (hx[i] >= 'a' && hx[i] <= 'f')
			return ERR_BAD_LOGIC;
	if (!hexIsValid(hx) || hx[c->n[3]] != 0)
		return ERR_BAD_LOGIC;
	hexLower(hx);
	for (i = 0; i < c->n[3]; ++i)
		if (hx[i] >= 'A' && hx[i] <= 'F')
			return ERR_BAD_LOGIC;
	/* CRC32 of the whole equals CRC32 continued over two pieces */
	cut = c->n[4] ? fc_below(c, (uint32_t)c->n[4] + 1) : 0;
	crc1 = utilCRC32(c->a[4], c->n[4], 0);
	crc2 = utilCRC32(c->a[4], cut, 0);
	crc2 = utilCRC32((const octet*)c->a[4] + cut, c->n[4] - cut, crc2);
	r[2] = crc1;
	if (crc1 != crc2)
		return ERR_BAD_LOGIC;
	/* messages: every code the library defines has one or none; no crash on arbitrary codes */
	for (i = 0; i < 700; ++i)
	{
		const char* m = errMsg((err_t)i);
		if (m && strLen(m) == 0)
			return ERR_BAD_LOGIC;
	}
	(void)errMsg((err_t)sk_u64(&c->rng));
	r[3] = (size_t)memIsAligned(c->a[4], 1) + 2 * (size_t)memIsAligned((const octet*)0 + 24, 8) + 4 * (size_t)memIsAligned((const octet*)0 + 20, 8);
	if (r[3] != 3)
		return ERR_BAD_LOGIC;
	return ERR_OK;
}

#define D(NAME, GEN, CALL) { NAME, GEN, CALL, 0, FC_MATH }
const fc_desc fc_util[] = {
	D("str helpers", gen_str, call_str),
	D("blob helpers", gen_blob, call_blob),
	D("uNNRev2+memXor+memRev+memSwap", gen_rev, call_rev),
	D("apdu Enc/Dec", gen_apdu, call_apdu),
	D("rngTestFIPS1-4", gen_fips, call_fips),
	D("btokCVCLen", gen_cvclen, call_cvclen),
	D("belt block/key primitives+WBLStepR", gen_beltprim, call_beltprim),
	D("small helpers (prngEcho, Luhn, hex case, CRC32, errMsg)", gen_small, call_small),
};
const unsigned fc_util_n = sizeof(fc_util) / sizeof(fc_util[0]);
