/* Descriptors: belt high-level functions (belt.h \expect lines). */
#include "fc.h"
#include "bee2/crypto/belt.h"

static const size_t KL[3] = { 16, 24, 32 };
static const size_t BADKL[] = { 0, 1, 15, 17, 23, 25, 31, 33, 64 };

/* slots: a0 dest, a1 src, n1 count, a2 key, n2 len, a3 iv */
static size_t len_around(fc_ctx* c, size_t min, size_t step)
{
	static const size_t base[] = { 0, 1, 15, 16, 17, 31, 32, 33, 47, 48, 63, 64, 65, 80, 100, 200 };
	size_t v = FC_PICK(c, base);
	if (step > 1)
		v = (v / step) * step;
	if (v < min)
		v = min + (step > 1 ? 0 : fc_below(c, 16));
	return v;
}

static void gen_cipher_common(fc_ctx* c, size_t min, size_t step, int iv)
{
	c->n[1] = len_around(c, min, step);
	c->n[2] = FC_PICK(c, KL);
	c->a[1] = fc_pub(c, c->n[1]);
	c->a[2] = fc_sec(c, c->n[2]);
	c->a[3] = iv ? fc_pub(c, 16) : 0;
	c->a[0] = fc_out(c, c->n[1]);
	c->variant = (int)(c->n[2] / 8) * 1000 + (int)c->n[1];
}

static int bad_keylen(fc_ctx* c, int j, err_t* exp, int nextra)
{
	/* variants 0..8: key length outside {16,24,32} */
	if (j < 9)
	{
		/* the key buffer really has the bad length, so the length is the
		   only thing wrong with the call */
		c->n[2] = BADKL[j];
		c->a[2] = fc_sec(c, BADKL[j]);
		exp[0] = ERR_BAD_INPUT;
		return 1;
	}
	(void)nextra;
	return 0;
}

#define CIPHER(NAME, FN, MIN, STEP, IV, CALL, BADCOUNT)\
static void gen_##NAME(fc_ctx* c) { gen_cipher_common(c, MIN, STEP, IV); }\
static err_t call_##NAME(fc_ctx* c) { return CALL; }\
static int bad_##NAME(fc_ctx* c, int j, err_t* exp)\
{\
	static const size_t badcount[] = BADCOUNT;\
	int nb = (int)(sizeof(badcount) / sizeof(badcount[0]));\
	if (j < 9) return bad_keylen(c, j, exp, 0);\
	j -= 9;\
	if (j < nb && badcount[j] != (size_t)-1)\
	{\
		/* count outside the domain: buffers re-made at the bad size */\
		c->n[1] = badcount[j];\
		c->a[1] = fc_pub(c, c->n[1]);\
		c->a[0] = fc_out(c, c->n[1]);\
		exp[0] = ERR_BAD_INPUT;\
		return 1;\
	}\
	return 0;\
}

#define NOBAD { (size_t)-1 }
#define LIST(...) { __VA_ARGS__ }

CIPHER(ECBEncr, beltECBEncr, 16, 1, 0, beltECBEncr(c->a[0], c->a[1], c->n[1], c->a[2], c->n[2]), LIST(0, 1, 15))
CIPHER(ECBDecr, beltECBDecr, 16, 1, 0, beltECBDecr(c->a[0], c->a[1], c->n[1], c->a[2], c->n[2]), LIST(0, 1, 15))
CIPHER(CBCEncr, beltCBCEncr, 16, 1, 1, beltCBCEncr(c->a[0], c->a[1], c->n[1], c->a[2], c->n[2], c->a[3]), LIST(0, 1, 15))
CIPHER(CBCDecr, beltCBCDecr, 16, 1, 1, beltCBCDecr(c->a[0], c->a[1], c->n[1], c->a[2], c->n[2], c->a[3]), LIST(0, 1, 15))
CIPHER(CFBEncr, beltCFBEncr, 0, 1, 1, beltCFBEncr(c->a[0], c->a[1], c->n[1], c->a[2], c->n[2], c->a[3]), NOBAD)
CIPHER(CFBDecr, beltCFBDecr, 0, 1, 1, beltCFBDecr(c->a[0], c->a[1], c->n[1], c->a[2], c->n[2], c->a[3]), NOBAD)
CIPHER(CTR, beltCTR, 0, 1, 1, beltCTR(c->a[0], c->a[1], c->n[1], c->a[2], c->n[2], c->a[3]), NOBAD)
CIPHER(BDEEncr, beltBDEEncr, 16, 16, 1, beltBDEEncr(c->a[0], c->a[1], c->n[1], c->a[2], c->n[2], c->a[3]), LIST(0, 1, 15, 17, 31, 33))
CIPHER(BDEDecr, beltBDEDecr, 16, 16, 1, beltBDEDecr(c->a[0], c->a[1], c->n[1], c->a[2], c->n[2], c->a[3]), LIST(0, 1, 15, 17, 31, 33))
CIPHER(SDEEncr, beltSDEEncr, 32, 16, 1, beltSDEEncr(c->a[0], c->a[1], c->n[1], c->a[2], c->n[2], c->a[3]), LIST(0, 1, 16, 31, 33, 47))
CIPHER(SDEDecr, beltSDEDecr, 32, 16, 1, beltSDEDecr(c->a[0], c->a[1], c->n[1], c->a[2], c->n[2], c->a[3]), LIST(0, 1, 16, 31, 33, 47))

/* MAC: a0 mac[8], a1 src, n1, a2 key, n2 */
static void gen_MAC(fc_ctx* c)
{
	gen_cipher_common(c, 0, 1, 0);
	c->nouts = 0;
	c->a[0] = fc_out(c, 8);
}
static err_t call_MAC(fc_ctx* c) { return beltMAC(c->a[0], c->a[1], c->n[1], c->a[2], c->n[2]); }
static int bad_MAC(fc_ctx* c, int j, err_t* exp) { return bad_keylen(c, j, exp, 0); }

/* HMAC: key of any length; no invalid scalar */
static void gen_HMAC(fc_ctx* c)
{
	static const size_t hk[] = { 0, 1, 16, 31, 32, 33, 64, 100 };
	c->n[1] = len_around(c, 0, 1);
	c->n[2] = FC_PICK(c, hk);
	c->a[1] = fc_pub(c, c->n[1]);
	c->a[2] = fc_sec(c, c->n[2]);
	c->a[0] = fc_out(c, 32);
	c->variant = (int)c->n[2] * 1000 + (int)c->n[1];
}
static err_t call_HMAC(fc_ctx* c) { return beltHMAC(c->a[0], c->a[1], c->n[1], c->a[2], c->n[2]); }

static void gen_Hash(fc_ctx* c)
{
	c->n[1] = len_around(c, 0, 1);
	c->a[1] = fc_pub(c, c->n[1]);
	c->a[0] = fc_out(c, 32);
	c->variant = (int)c->n[1];
}
static err_t call_Hash(fc_ctx* c) { return beltHash(c->a[0], c->a[1], c->n[1]); }

/* DWP/CHE wrap: a0 dest, a4 mac, a1 src1,n1, a5 src2,n5, a2 key,n2, a3 iv */
static void gen_aead_wrap(fc_ctx* c)
{
	c->n[1] = len_around(c, 0, 1);
	c->n[5] = len_around(c, 0, 1);
	c->n[2] = FC_PICK(c, KL);
	c->a[1] = fc_sec(c, c->n[1]);  /* critical data are the protected secret */
	c->a[5] = fc_pub(c, c->n[5]);
	c->a[2] = fc_sec(c, c->n[2]);
	c->a[3] = fc_pub(c, 16);
	c->a[0] = fc_out(c, c->n[1]);
	c->a[4] = fc_out(c, 8);
	c->variant = (int)c->n[1] * 1000 + (int)c->n[5];
}
static err_t call_DWPWrap(fc_ctx* c) { return beltDWPWrap(c->a[0], c->a[4], c->a[1], c->n[1], c->a[5], c->n[5], c->a[2], c->n[2], c->a[3]); }
static err_t call_CHEWrap(fc_ctx* c) { return beltCHEWrap(c->a[0], c->a[4], c->a[1], c->n[1], c->a[5], c->n[5], c->a[2], c->n[2], c->a[3]); }
static int bad_aead_wrap(fc_ctx* c, int j, err_t* exp) { return bad_keylen(c, j, exp, 0); }

/* DWP/CHE unwrap: a0 dest, a1 ct,n1, a5 aad,n5, a4 mac, a2 key,n2, a3 iv; a6 plaintext */
static void gen_aead_unwrap(fc_ctx* c, int che)
{
	octet* pt;
	c->n[1] = len_around(c, 0, 1);
	c->n[5] = len_around(c, 0, 1);
	c->n[2] = FC_PICK(c, KL);
	pt = fc_sec(c, c->n[1]);
	c->a[5] = fc_pub(c, c->n[5]);
	c->a[2] = fc_sec(c, c->n[2]);
	c->a[3] = fc_pub(c, 16);
	c->a[1] = fc_raw(c, c->n[1]);
	c->a[4] = fc_raw(c, 8);
	/* the valid protected message is made with the step functions, on the
	   harness side (no library allocation) */
	{
		void* st = sk_alloc(che ? beltCHE_keep() : beltDWP_keep());
		memcpy(c->a[1], pt, c->n[1]);
		if (che)
		{
			beltCHEStart(st, c->a[2], c->n[2], c->a[3]);
			beltCHEStepI(c->a[5], c->n[5], st);
			beltCHEStepE(c->a[1], c->n[1], st);
			beltCHEStepA(c->a[1], c->n[1], st);
			beltCHEStepG(c->a[4], st);
		}
		else
		{
			beltDWPStart(st, c->a[2], c->n[2], c->a[3]);
			beltDWPStepI(c->a[5], c->n[5], st);
			beltDWPStepE(c->a[1], c->n[1], st);
			beltDWPStepA(c->a[1], c->n[1], st);
			beltDWPStepG(c->a[4], st);
		}
		sk_free(st);
	}
	fc_mark_pub(c, c->a[1], c->n[1]);
	fc_mark_pub(c, c->a[4], 8);
	c->a[0] = fc_out(c, c->n[1]);
	c->plain = pt, c->plain_len = c->n[1];
	c->dest = c->a[0], c->dest_len = c->n[1];
	c->variant = (int)c->n[1] * 1000 + (int)c->n[5];
}
static void gen_DWPUnwrap(fc_ctx* c) { gen_aead_unwrap(c, 0); }
static void gen_CHEUnwrap(fc_ctx* c) { gen_aead_unwrap(c, 1); }
static err_t call_DWPUnwrap(fc_ctx* c) { return beltDWPUnwrap(c->a[0], c->a[1], c->n[1], c->a[5], c->n[5], c->a[4], c->a[2], c->n[2], c->a[3]); }
static err_t call_CHEUnwrap(fc_ctx* c) { return beltCHEUnwrap(c->a[0], c->a[1], c->n[1], c->a[5], c->n[5], c->a[4], c->a[2], c->n[2], c->a[3]); }
static int bad_aead_unwrap(fc_ctx* c, int j, err_t* exp)
{
	octet* p;
	if (j < 9)
		return bad_keylen(c, j, exp, 0);
	j -= 9;
	exp[0] = FC_ANYERR;
	if (c->n[2] < 16)
		return 0; /* key already replaced by another variant */
	switch (j)
	{
	/* two variants are also applied together: their mutations of the tag use disjoint bits
	   (octets 0..5 / octet 6 / octet 7) so that they can never cancel */
	case 0: /* tag */
		((octet*)c->a[4])[sk_below(&c->rng, 6)] ^= (octet)(1u << sk_below(&c->rng, 8));
		return 1;
	case 1: /* ciphertext */
		if (c->n[1] == 0) { ((octet*)c->a[4])[6] ^= 1; return 1; }
		p = (octet*)c->a[1];
		p[sk_below(&c->rng, (uint32_t)c->n[1])] ^= (octet)(1u << sk_below(&c->rng, 8));
		return 1;
	case 2: /* associated data */
		if (c->n[5] == 0) { ((octet*)c->a[4])[7] ^= 0x80; return 1; }
		p = (octet*)c->a[5];
		p[sk_below(&c->rng, (uint32_t)c->n[5])] ^= (octet)(1u << sk_below(&c->rng, 8));
		return 1;
	case 3: /* iv */
		((octet*)c->a[3])[sk_below(&c->rng, 16)] ^= 1;
		return 1;
	case 4: /* other key */
		((octet*)c->a[2])[sk_below(&c->rng, (uint32_t)c->n[2])] ^= 1;
		return 1;
	}
	return 0;
}

/* KWP wrap: a0 dest[count+16], a1 src,n1, a3 header/NULL, a2 key,n2 */
static void gen_KWPWrap(fc_ctx* c)
{
	static const size_t cnt[] = { 16, 17, 24, 31, 32, 33, 48, 64, 65, 100 };
	c->n[1] = FC_PICK(c, cnt);
	c->n[2] = FC_PICK(c, KL);
	c->a[1] = fc_sec(c, c->n[1]);
	c->a[2] = fc_sec(c, c->n[2]);
	c->a[3] = fc_below(c, 4) ? fc_pub(c, 16) : 0;
	c->a[0] = fc_out(c, c->n[1] + 16);
	c->variant = (int)c->n[1];
}
static err_t call_KWPWrap(fc_ctx* c) { return beltKWPWrap(c->a[0], c->a[1], c->n[1], c->a[3], c->a[2], c->n[2]); }
static int bad_KWPWrap(fc_ctx* c, int j, err_t* exp)
{
	static const size_t bc[] = { 0, 1, 15 };
	if (j < 9)
		return bad_keylen(c, j, exp, 0);
	j -= 9;
	if (j < 3)
	{
		c->n[1] = bc[j];
		c->a[1] = fc_sec(c, c->n[1]);
		c->a[0] = fc_out(c, c->n[1] + 16);
		exp[0] = ERR_BAD_INPUT;
		return 1;
	}
	return 0;
}

/* KWP unwrap: a0 dest[count-16], a1 token,n1, a3 header, a2 key,n2; a6 = wrapped key */
static void gen_KWPUnwrap(fc_ctx* c)
{
	static const size_t cnt[] = { 16, 17, 24, 31, 32, 33, 48, 64, 65, 100 };
	size_t m = FC_PICK(c, cnt);
	octet* k;
	void* st;
	static const octet zero[16];
	c->n[1] = m + 16;
	c->n[2] = FC_PICK(c, KL);
	k = fc_sec(c, m);
	c->a[2] = fc_sec(c, c->n[2]);
	c->a[3] = fc_below(c, 4) ? fc_pub(c, 16) : 0;
	c->a[1] = fc_raw(c, m + 16);
	memcpy(c->a[1], k, m);
	memcpy((octet*)c->a[1] + m, c->a[3] ? c->a[3] : (const void*)zero, 16);
	st = sk_alloc(beltKWP_keep());
	beltKWPStart(st, c->a[2], c->n[2]);
	beltKWPStepE(c->a[1], m + 16, st);
	sk_free(st);
	fc_mark_pub(c, c->a[1], m + 16);
	c->a[0] = fc_out(c, m);
	c->plain = k, c->plain_len = m, c->dest = c->a[0], c->dest_len = m;
	c->variant = (int)m;
}
static err_t call_KWPUnwrap(fc_ctx* c) { return beltKWPUnwrap(c->a[0], c->a[1], c->n[1], c->a[3], c->a[2], c->n[2]); }
static int bad_KWPUnwrap(fc_ctx* c, int j, err_t* exp)
{
	static const size_t bc[] = { 0, 1, 16, 31 };
	if (j < 9)
		return bad_keylen(c, j, exp, 0);
	j -= 9;
	if (j < 4)
	{
		c->n[1] = bc[j];
		c->a[1] = fc_pub(c, c->n[1]);
		c->a[0] = fc_out(c, c->n[1] >= 16 ? c->n[1] - 16 : 0);
		c->plain = 0;
		exp[0] = ERR_BAD_INPUT;
		return 1;
	}
	j -= 4;
	exp[0] = FC_ANYERR;
	if (c->n[2] < 16 || c->n[1] < 32)
		return 0; /* already replaced by another variant */
	switch (j)
	{
	case 0: /* token octet */
		((octet*)c->a[1])[sk_below(&c->rng, (uint32_t)c->n[1])] ^= (octet)(1u << sk_below(&c->rng, 8));
		return 1;
	case 1: /* header mismatch */
	{
		octet* h = fc_pub(c, 16);
		if (c->a[3])
			memcpy(h, c->a[3], 16), h[sk_below(&c->rng, 16)] ^= 1;
		else
			h[0] |= 1;
		c->a[3] = h;
		return 1;
	}
	case 2: /* other key */
		((octet*)c->a[2])[sk_below(&c->rng, (uint32_t)c->n[2])] ^= 1;
		return 1;
	case 3:
	{
		/* a token made under a header that is zero but for one bit, presented without a header
		   (i.e. "the header is zero"): every one of the 128 header bits counts */
		octet h[16];
		void* st;
		size_t m = c->n[1] - 16;
		if (!c->plain || c->plain_len != m || (c->n[2] != 16 && c->n[2] != 24 && c->n[2] != 32))
			return 0;   /* composed with a variant that already replaced the token or the key length */
		memset(h, 0, 16);
		h[sk_below(&c->rng, 16)] = (octet)(1u << sk_below(&c->rng, 8));
		memcpy(c->a[1], c->plain, m);
		memcpy((octet*)c->a[1] + m, h, 16);
		st = sk_alloc(beltKWP_keep());
		beltKWPStart(st, c->a[2], c->n[2]);
		beltKWPStepE(c->a[1], m + 16, st);
		sk_free(st);
		c->a[3] = 0;
		exp[0] = ERR_BAD_KEYTOKEN;
		return 1;
	}
	}
	return 0;
}

/* FMT: a0 dest u16[count], n4 mod, a1 src u16[count], n1 count, a2 key, n2, a3 iv/NULL */
static void gen_FMT(fc_ctx* c)
{
	static const u32 mods[] = { 2, 3, 10, 16, 58, 255, 256, 257, 1000, 65535, 65536 };
	static const size_t cnts[] = { 2, 3, 4, 9, 10, 16, 17, 33, 100, 600 };
	u16* s;
	size_t i;
	c->n[4] = FC_PICK(c, mods);
	c->n[1] = FC_PICK(c, cnts);
	c->n[2] = FC_PICK(c, KL);
	s = (u16*)fc_pub(c, 2 * c->n[1]);
	for (i = 0; i < c->n[1]; ++i)
		s[i] = (u16)(s[i] % c->n[4]);
	c->a[1] = s;
	c->a[2] = fc_sec(c, c->n[2]);
	c->a[3] = fc_below(c, 3) ? fc_pub(c, 16) : 0;
	c->a[0] = fc_out(c, 2 * c->n[1]);
	c->variant = (int)c->n[4] * 1000 + (int)c->n[1];
}
static err_t call_FMTEncr(fc_ctx* c) { return beltFMTEncr(c->a[0], (u32)c->n[4], c->a[1], c->n[1], c->a[2], c->n[2], c->a[3]); }
static err_t call_FMTDecr(fc_ctx* c) { return beltFMTDecr(c->a[0], (u32)c->n[4], c->a[1], c->n[1], c->a[2], c->n[2], c->a[3]); }
static int bad_FMT(fc_ctx* c, int j, err_t* exp)
{
	if (j < 9)
		return bad_keylen(c, j, exp, 0);
	j -= 9;
	exp[0] = ERR_BAD_INPUT;
	switch (j)
	{
	case 0: c->n[4] = 0; return 1;
	case 1: c->n[4] = 1; return 1;
	case 2: c->n[4] = 65537; return 1;
	case 3: c->n[4] = 0xFFFFFFFFu; return 1;
	case 4: c->n[1] = 0; c->a[1] = fc_pub(c, 0); c->a[0] = fc_out(c, 0); return 1;
	case 5: c->n[1] = 1; c->a[1] = fc_raw(c, 2); c->a[0] = fc_out(c, 2); return 1;
	case 6: /* count beyond the implementation limit */
	{
		c->n[1] = 601;
		c->a[1] = fc_raw(c, 2 * 601);
		c->a[0] = fc_out(c, 2 * 601);
		exp[0] = ERR_NOT_IMPLEMENTED;
		return 1;
	}
	}
	return 0;
}

/* KRP: a0 dest[m], n0 m, a1 src[n], n1 n, a2 level[12], a3 header[16] */
static void gen_KRP(fc_ctx* c)
{
	c->n[1] = FC_PICK(c, KL);
	do c->n[0] = FC_PICK(c, KL); while (c->n[0] > c->n[1]);
	c->a[1] = fc_sec(c, c->n[1]);
	c->a[2] = fc_pub(c, 12);
	c->a[3] = fc_pub(c, 16);
	c->a[0] = fc_out(c, c->n[0]);
	c->variant = (int)(c->n[1] * 100 + c->n[0]);
}
static err_t call_KRP(fc_ctx* c) { return beltKRP(c->a[0], c->n[0], c->a[1], c->n[1], c->a[2], c->a[3]); }
static int bad_KRP(fc_ctx* c, int j, err_t* exp)
{
	exp[0] = ERR_BAD_INPUT;
	if (j < 9)
	{
		c->n[1] = BADKL[j];
		c->a[1] = fc_sec(c, c->n[1]);
		return 1;
	}
	j -= 9;
	if (j < 9)
	{
		c->n[0] = BADKL[j];
		c->a[0] = fc_out(c, c->n[0]);
		return 1;
	}
	j -= 9;
	if (j == 0)
	{
		/* m > n */
		c->n[1] = 16, c->n[0] = 24;
		c->a[1] = fc_sec(c, 16), c->a[0] = fc_out(c, 24);
		return 1;
	}
	if (j == 1)
	{
		c->n[1] = 24, c->n[0] = 32;
		c->a[1] = fc_sec(c, 24), c->a[0] = fc_out(c, 32);
		return 1;
	}
	return 0;
}

/* PBKDF2: a0 key[32], a1 pwd,n1, n4 iter, a5 salt,n5 */
static void gen_PBKDF2(fc_ctx* c)
{
	static const size_t pl[] = { 0, 1, 8, 31, 32, 33, 64, 65 };
	c->n[1] = FC_PICK(c, pl);
	c->n[5] = FC_PICK(c, pl);
	c->n[4] = 1 + fc_below(c, 5);
	c->a[1] = fc_sec(c, c->n[1]);
	c->a[5] = fc_pub(c, c->n[5]);
	c->a[0] = fc_out(c, 32);
	c->variant = (int)(c->n[1] * 100 + c->n[5]);
}
static err_t call_PBKDF2(fc_ctx* c) { return beltPBKDF2(c->a[0], c->a[1], c->n[1], c->n[4], c->a[5], c->n[5]); }
static int bad_PBKDF2(fc_ctx* c, int j, err_t* exp)
{
	if (j == 0)
	{
		c->n[4] = 0;
		exp[0] = ERR_BAD_INPUT;
		return 1;
	}
	return 0;
}

#define D(NAME, GEN, CALL, BAD, FLAGS) { "belt" #NAME, GEN, CALL, BAD, FLAGS }
const fc_desc fc_belt[] = {
	D(ECBEncr, gen_ECBEncr, call_ECBEncr, bad_ECBEncr, FC_SECRET),
	D(ECBDecr, gen_ECBDecr, call_ECBDecr, bad_ECBDecr, FC_SECRET),
	D(CBCEncr, gen_CBCEncr, call_CBCEncr, bad_CBCEncr, FC_SECRET),
	D(CBCDecr, gen_CBCDecr, call_CBCDecr, bad_CBCDecr, FC_SECRET),
	D(CFBEncr, gen_CFBEncr, call_CFBEncr, bad_CFBEncr, FC_SECRET),
	D(CFBDecr, gen_CFBDecr, call_CFBDecr, bad_CFBDecr, FC_SECRET),
	D(CTR, gen_CTR, call_CTR, bad_CTR, FC_SECRET),
	D(BDEEncr, gen_BDEEncr, call_BDEEncr, bad_BDEEncr, FC_SECRET),
	D(BDEDecr, gen_BDEDecr, call_BDEDecr, bad_BDEDecr, FC_SECRET),
	D(SDEEncr, gen_SDEEncr, call_SDEEncr, bad_SDEEncr, FC_SECRET),
	D(SDEDecr, gen_SDEDecr, call_SDEDecr, bad_SDEDecr, FC_SECRET),
	D(MAC, gen_MAC, call_MAC, bad_MAC, FC_SECRET),
	D(HMAC, gen_HMAC, call_HMAC, 0, FC_SECRET),
	D(Hash, gen_Hash, call_Hash, 0, 0),
	D(DWPWrap, gen_aead_wrap, call_DWPWrap, bad_aead_wrap, FC_SECRET),
	D(CHEWrap, gen_aead_wrap, call_CHEWrap, bad_aead_wrap, FC_SECRET),
	D(DWPUnwrap, gen_DWPUnwrap, call_DWPUnwrap, bad_aead_unwrap, FC_SECRET | FC_AUTH),
	D(CHEUnwrap, gen_CHEUnwrap, call_CHEUnwrap, bad_aead_unwrap, FC_SECRET | FC_AUTH),
	D(KWPWrap, gen_KWPWrap, call_KWPWrap, bad_KWPWrap, FC_SECRET),
	D(KWPUnwrap, gen_KWPUnwrap, call_KWPUnwrap, bad_KWPUnwrap, FC_SECRET | FC_AUTH),
	D(FMTEncr, gen_FMT, call_FMTEncr, bad_FMT, FC_SECRET),
	D(FMTDecr, gen_FMT, call_FMTDecr, bad_FMT, FC_SECRET),
	D(KRP, gen_KRP, call_KRP, bad_KRP, FC_SECRET),
	D(PBKDF2, gen_PBKDF2, call_PBKDF2, bad_PBKDF2, FC_SECRET),
};
const unsigned fc_belt_n = sizeof(fc_belt) / sizeof(fc_belt[0]);
