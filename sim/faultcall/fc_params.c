/* Descriptors: parameter generation and validation (bign, pfok, stb99, dstu),
   certificate signing requests (bpki), protocol initialisation (bake).
   These complete the C09 table: every err_t function of include/bee2/crypto
   that allocates or documents \expect{ERR_...} conditions has a descriptor here,
   in the other fc_*.c files, or is driven by protosim (bake steps, btok SM/BAUTH). */
#include "fc.h"
#include "b2util.h"
#include "bee2/core/mem.h"
#include "bee2/core/hex.h"
#include "bee2/core/util.h"
#include "bee2/crypto/bign.h"
#include "bee2/crypto/bake.h"
#include "bee2/crypto/bpki.h"
#include "bee2/crypto/btok.h"
#include "bee2/crypto/pfok.h"
#include "bee2/crypto/stb99.h"
#include "bee2/crypto/dstu.h"

/* ------------------------------------------------------------ bignParamsGen */
/* The caller supplies calc_q (order of the point group) and may supply on_seed
   (called before every seed; a non-zero return cancels the computation).  The
   simulator owns both callbacks: calc_q knows the order for the standard seed only
   and answers ERR_NO_RESULT before it; either callback can be told to fail with a
   chosen code at a chosen call. */
static const char* const BN[3] = { "1.2.112.0.2.0.34.101.45.3.1", "1.2.112.0.2.0.34.101.45.3.2", "1.2.112.0.2.0.34.101.45.3.3" };
typedef struct { bign_params std[1]; unsigned seeds, qcalls; unsigned fail_seed_at, fail_q_at; err_t fail_code; } pgen_t;
static err_t pg_on_seed(const bign_params* p, void* state)
{
	pgen_t* g = (pgen_t*)state;
	(void)p;
	if (++g->seeds == g->fail_seed_at)
		return g->fail_code;
	return ERR_OK;
}
static err_t pg_calc_q(bign_params* p, void* state)
{
	pgen_t* g = (pgen_t*)state;
	if (++g->qcalls == g->fail_q_at)
		return g->fail_code;
	if (memcmp(p->seed, g->std->seed, 8) || memcmp(p->b, g->std->b, sizeof(p->b)))
		return ERR_NO_RESULT;
	memcpy(p->q, g->std->q, sizeof(p->q));
	return ERR_OK;
}
static void gen_ParamsGen(fc_ctx* c)
{
	pgen_t* g = (pgen_t*)fc_raw(c, sizeof(pgen_t));
	bign_params* p = (bign_params*)fc_out(c, sizeof(bign_params));
	unsigned back = fc_below(c, 3), i;
	memset(g, 0, sizeof(*g));
	bignParamsStd(g->std, BN[fc_below(c, 8) < 6 ? 0 : 1 + fc_below(c, 2)]);
	memset(p, 0, sizeof(*p));
	p->l = g->std->l;
	memcpy(p->p, g->std->p, sizeof(p->p)), memcpy(p->a, g->std->a, sizeof(p->a));
	memcpy(p->seed, g->std->seed, 8);
	/* start a few seeds before the standard one (little-endian counter) */
	for (i = 0; i < back; ++i)
	{
		unsigned k = 0;
		while (k < 8 && p->seed[k]-- == 0) ++k;
	}
	c->a[0] = p, c->a[1] = g;
	c->n[1] = fc_below(c, 2);    /* with on_seed */
	c->variant = (int)(p->l * 10 + back * 2 + c->n[1]);
}
static err_t call_ParamsGen(fc_ctx* c)
{
	pgen_t* g = (pgen_t*)c->a[1];
	bign_params* p = (bign_params*)c->a[0];
	err_t code;
	g->seeds = g->qcalls = 0;
	code = bignParamsGen(p, c->n[2] ? 0 : pg_calc_q, c->n[1] ? pg_on_seed : 0, g);
	if (code == ERR_OK && memcmp(p, g->std, sizeof(bign_params)))
		return ERR_BAD_LOGIC;  /* b, q, yG must be the standard's */
	return code;
}
static int bad_ParamsGen(fc_ctx* c, int j, err_t* exp)
{
	pgen_t* g = (pgen_t*)c->a[1];
	bign_params* p = (bign_params*)c->a[0];
	static const err_t codes[] = { ERR_FILE_READ, ERR_TIMEOUT, ERR_BAD_LOGIC, ERR_MAX };
	switch (j)
	{
	case 0: c->n[2] = 1; exp[0] = ERR_BAD_INPUT; return 1;                   /* calc_q == 0 */
	case 1: p->l = 100; exp[0] = ERR_BAD_PARAMS; return 1;
	case 2: p->p[0] ^= 1; exp[0] = ERR_BAD_PARAMS; return 1;                 /* p mod 4 != 3 */
	case 3: p->p[0] ^= 4; exp[0] = ERR_BAD_PARAMS; return 1;                 /* composite (checked offline for all three levels) */
	case 4: memset(p->a, 0, sizeof(p->a)); exp[0] = ERR_BAD_PARAMS; return 1;
	case 5: memcpy(p->a, p->p, sizeof(p->a)); exp[0] = ERR_BAD_PARAMS; return 1;   /* a >= p */
	case 6: p->p[p->l / 4 - 1] &= 0x7F; exp[0] = ERR_BAD_PARAMS; return 1;   /* short p */
	case 7: case 8: case 9: case 10:
		/* cancellation through on_seed at its 1st..2nd call, with a code of the caller's choosing */
		c->n[1] = 1;
		g->fail_seed_at = 1 + (unsigned)(j & 1), g->fail_code = codes[(j - 7) % 4];
		/* a later call than the computation makes never happens: success is then right */
		exp[0] = g->fail_code, exp[1] = ERR_OK;
		return 2;
	case 11: case 12: case 13: case 14:
		g->fail_q_at = 1 + (unsigned)(j & 1), g->fail_code = codes[(j - 11) % 4];
		exp[0] = g->fail_code, exp[1] = ERR_OK;
		return 2;
	}
	return 0;
}

/* ------------------------------------------------------------------ pfok */
static const char* const PFN[4] = { "test", "1.2.112.0.2.0.1176.2.3.3.2", "1.2.112.0.2.0.1176.2.3.6.2", "1.2.112.0.2.0.1176.2.3.10.2" };
static void gen_pfokSeed(fc_ctx* c)
{
	pfok_seed* s = (pfok_seed*)fc_out(c, sizeof(pfok_seed));
	pfok_params p[1];
	unsigned k = fc_below(c, 4);
	pfokParamsStd(p, s, PFN[k]);
	c->a[0] = s;
	c->n[1] = fc_below(c, 3);       /* Adj: 0 complete seed, 1 zi zeroed, 2 li zeroed */
	c->variant = (int)(k * 10 + c->n[1]);
}
static err_t call_pfokSeedVal(fc_ctx* c) { return pfokSeedVal(c->a[0]); }
static err_t call_pfokSeedAdj(fc_ctx* c)
{
	pfok_seed* s = (pfok_seed*)c->a[0];
	err_t code;
	if (c->n[1] == 1) memset(s->zi, 0, sizeof(s->zi));
	if (c->n[1] == 2) memset(s->li, 0, sizeof(s->li));
	code = pfokSeedAdj(s);
	if (code == ERR_OK && pfokSeedVal(s) != ERR_OK)
		return ERR_BAD_LOGIC;   /* "ERR_OK if the resulting parameters are valid" */
	return code;
}
static int bad_pfokSeed(fc_ctx* c, int j, err_t* exp)
{
	pfok_seed* s = (pfok_seed*)c->a[0];
	c->n[1] = 0;
	exp[0] = ERR_BAD_SEED;
	switch (j)
	{
	case 0: s->l = 0; return 1;
	case 1: s->l += 1; return 1;
	case 2: s->zi[0] = 0; s->zi[1] = 1; return 1;          /* not all zero, one invalid */
	case 3: s->zi[30] = 65257; return 1;
	case 4: s->li[0] += 1; return 1;
	case 5: s->li[1] = s->li[0]; return 1;                 /* chain does not shrink */
	case 6: s->li[1] = s->li[0] / 2 - 1; return 1;         /* shrinks too fast */
	case 7: s->li[1] = SIZE_MAX / 5; return 1;
	case 8: s->li[19] = 17; return 1;                      /* garbage after the chain end */
	}
	return 0;
}
static void gen_pfokParamsVal(fc_ctx* c)
{
	pfok_params* p = (pfok_params*)fc_raw(c, sizeof(pfok_params));
	unsigned k = fc_below(c, 8) < 6 ? 0 : 1 + fc_below(c, 3);
	pfokParamsStd(p, 0, PFN[k]);
	c->a[0] = p;
	c->variant = (int)k;
}
static err_t call_pfokParamsVal(fc_ctx* c) { return pfokParamsVal(c->a[0]); }
static int bad_pfokParamsVal(fc_ctx* c, int j, err_t* exp)
{
	pfok_params* p = (pfok_params*)c->a[0];
	size_t no = O_OF_B(p->l);
	exp[0] = ERR_BAD_PARAMS;
	switch (j)
	{
	case 0: p->l += 1; return 1;
	case 1: p->r += 1; return 1;
	case 2: p->n = p->l; return 1;
	case 3: p->p[0] ^= 1; return 1;                        /* even */
	case 4: p->p[1] ^= 1; return 1;                        /* composite with overwhelming probability: sieve or Rabin-Miller */
	case 5: memset(p->g, 0, no); return 1;
	case 6: memcpy(p->g, p->p, no); return 1;              /* g >= p */
	case 7: memset(p->g, 0, no), p->g[0] = 1; return 1;    /* order 1 */
	case 8: p->p[no - 1] = 0; return 1;                    /* short p */
	}
	return 0;
}
static void pf_on_q(const word q[], size_t n, size_t num) { (void)q, (void)n, (void)num; }
static void gen_pfokParamsGen(fc_ctx* c)
{
	pfok_seed* s = (pfok_seed*)fc_raw(c, sizeof(pfok_seed));
	pfok_params* std = (pfok_params*)fc_raw(c, sizeof(pfok_params));
	pfokParamsStd(std, s, PFN[0]);
	c->a[0] = fc_out(c, sizeof(pfok_params));
	c->a[1] = s, c->a[2] = std;
	c->n[1] = fc_below(c, 2);
	c->variant = (int)c->n[1];
}
static err_t call_pfokParamsGen(fc_ctx* c)
{
	err_t code = pfokParamsGen(c->a[0], c->a[1], c->n[1] ? pf_on_q : 0);
	/* l, r, n and p are determined by the seed; the standard's g is not the first suitable one */
	if (code == ERR_OK)
	{
		const pfok_params* a = (const pfok_params*)c->a[0];
		const pfok_params* b = (const pfok_params*)c->a[2];
		if (a->l != b->l || a->r != b->r || a->n != b->n || memcmp(a->p, b->p, sizeof(a->p)) || pfokParamsVal(a) != ERR_OK)
			return ERR_BAD_LOGIC;
	}
	return code;
}
static int bad_pfokParamsGen(fc_ctx* c, int j, err_t* exp)
{
	fc_ctx t = *c;
	t.a[0] = c->a[1];
	return bad_pfokSeed(&t, j, exp);
}

/* ----------------------------------------------------------------- stb99 */
static const char* const SBN[4] = { "test", "1.2.112.0.2.0.1176.2.3.3.1", "1.2.112.0.2.0.1176.2.3.6.1", "1.2.112.0.2.0.1176.2.3.10.1" };
static void gen_stb99Seed(fc_ctx* c)
{
	stb99_seed* s = (stb99_seed*)fc_out(c, sizeof(stb99_seed));
	stb99_params p[1];
	unsigned k = fc_below(c, 4);
	stb99ParamsStd(p, s, SBN[k]);
	c->a[0] = s;
	c->n[1] = fc_below(c, 4);
	c->variant = (int)(k * 10 + c->n[1]);
}
static err_t call_stb99SeedVal(fc_ctx* c) { return stb99SeedVal(c->a[0]); }
static err_t call_stb99SeedAdj(fc_ctx* c)
{
	stb99_seed* s = (stb99_seed*)c->a[0];
	err_t code;
	if (c->n[1] == 1) memset(s->zi, 0, sizeof(s->zi));
	if (c->n[1] == 2) memset(s->di, 0, sizeof(s->di));
	if (c->n[1] == 3) memset(s->ri, 0, sizeof(s->ri));
	code = stb99SeedAdj(s);
	if (code == ERR_OK && stb99SeedVal(s) != ERR_OK)
		return ERR_BAD_LOGIC;
	return code;
}
static int bad_stb99Seed(fc_ctx* c, int j, err_t* exp)
{
	stb99_seed* s = (stb99_seed*)c->a[0];
	c->n[1] = 0;
	exp[0] = ERR_BAD_SEED;
	switch (j)
	{
	case 0: s->l = 0; return 1;
	case 1: s->l += 1; return 1;
	case 2: s->zi[0] = 0; s->zi[1] = 1; return 1;
	case 3: s->zi[30] = 65257; return 1;
	case 4: s->di[0] = s->l; return 1;                     /* beyond 7l/8 - r */
	case 5: s->di[1] = s->di[0]; return 1;
	case 6: s->ri[0] += 1; return 1;                       /* ri[0] = r is fixed by l */
	case 7: s->ri[1] = s->ri[0]; return 1;
	case 8: s->di[17] = 17; return 1;
	case 9: s->ri[9] = 17; return 1;
	}
	return 0;
}
static void gen_stb99ParamsVal(fc_ctx* c)
{
	stb99_params* p = (stb99_params*)fc_raw(c, sizeof(stb99_params));
	unsigned k = fc_below(c, 8) < 6 ? 0 : 1 + fc_below(c, 3);
	stb99ParamsStd(p, 0, SBN[k]);
	c->a[0] = p;
	c->variant = (int)k;
}
static err_t call_stb99ParamsVal(fc_ctx* c) { return stb99ParamsVal(c->a[0]); }
static int bad_stb99ParamsVal(fc_ctx* c, int j, err_t* exp)
{
	stb99_params* p = (stb99_params*)c->a[0];
	size_t no = O_OF_B(p->l);
	exp[0] = ERR_BAD_PARAMS;
	switch (j)
	{
	case 0: p->l += 1; return 1;
	case 1: p->r += 1; return 1;
	case 2: p->p[0] ^= 1; return 1;
	case 3: p->p[1] ^= 1; return 1;
	case 4: p->q[0] ^= 1; return 1;
	case 5: p->q[1] ^= 1; return 1;                        /* q no longer divides p - 1 (or is composite) */
	case 6: memset(p->a, 0, no); return 1;
	case 7: memset(p->a, 0, no), p->a[0] = 1; return 1;    /* unity of the group? a must differ from it */
	case 8: memcpy(p->a, p->p, no); return 1;
	case 9: memset(p->d, 0, no); return 1;
	case 10: p->a[0] ^= 1; return 1;                       /* no longer the power of d */
	}
	return 0;
}
static void gen_stb99ParamsGen(fc_ctx* c)
{
	stb99_seed* s = (stb99_seed*)fc_raw(c, sizeof(stb99_seed));
	stb99_params* std = (stb99_params*)fc_raw(c, sizeof(stb99_params));
	stb99ParamsStd(std, s, SBN[0]);
	c->a[0] = fc_out(c, sizeof(stb99_params));
	c->a[1] = s, c->a[2] = std;
	c->variant = 0;
}
static err_t call_stb99ParamsGen(fc_ctx* c)
{
	err_t code = stb99ParamsGen(c->a[0], c->a[1]);
	if (code == ERR_OK && memcmp(c->a[0], c->a[2], sizeof(stb99_params)))
		return ERR_BAD_LOGIC;
	return code;
}
static int bad_stb99ParamsGen(fc_ctx* c, int j, err_t* exp)
{
	fc_ctx t = *c;
	t.a[0] = c->a[1];
	return bad_stb99Seed(&t, j, exp);
}

/* ------------------------------------------------------------ dstuParamsVal */
static const char* const DN[10] = {
	"1.2.804.2.1.1.1.1.3.1.1.1.2.0", "1.2.804.2.1.1.1.1.3.1.1.1.2.1", "1.2.804.2.1.1.1.1.3.1.1.1.2.2",
	"1.2.804.2.1.1.1.1.3.1.1.1.2.3", "1.2.804.2.1.1.1.1.3.1.1.1.2.4", "1.2.804.2.1.1.1.1.3.1.1.1.2.5",
	"1.2.804.2.1.1.1.1.3.1.1.1.2.6", "1.2.804.2.1.1.1.1.3.1.1.1.2.7", "1.2.804.2.1.1.1.1.3.1.1.1.2.8",
	"1.2.804.2.1.1.1.1.3.1.1.1.2.9" };
static void gen_dstuParamsVal(fc_ctx* c)
{
	dstu_params* p = (dstu_params*)fc_raw(c, sizeof(dstu_params));
	unsigned k = fc_below(c, 10);
	dstuParamsStd(p, DN[k]);
	/* the standard sets carry no base point: make one the way the header says */
	c->tape_mode = 0;
	if (dstuPointGen(p->P, p, fc_tape, c) != ERR_OK)
		memset(p->P, 0, sizeof(p->P));
	c->a[0] = p;
	c->variant = (int)k;
}
static err_t call_dstuParamsVal(fc_ctx* c) { return dstuParamsVal(c->a[0]); }
static int bad_dstuParamsVal(fc_ctx* c, int j, err_t* exp)
{
	dstu_params* p = (dstu_params*)c->a[0];
	exp[0] = ERR_BAD_PARAMS;
	switch (j)
	{
	case 0: p->p[0] = 100; return 1;
	case 1: p->p[0] = 600; return 1;
	case 2: p->A = 2; return 1;
	case 3: memset(p->B, 0, sizeof(p->B)); return 1;
	case 4: p->n[0] ^= 2; return 1;                        /* even order */
	case 5: p->c = 0; return 1;
	case 6: p->P[0] ^= 1; return 1;                        /* base point off the curve */
	case 7: memset(p->P, 0, sizeof(p->P)); return 1;
	case 8: p->p[1] = p->p[0]; return 1;                   /* not a polynomial description */
	case 9: p->c = 6; return 1;                            /* order * cofactor outside the Hasse interval */
	}
	return 0;
}

/* ------------------------------------------------------------------ bpki CSR */
static const char CSR_HEX[] =
	"3082017A30820134020100305F3115301306035504030C0C524F4245525420534D495448310E300C06035504040C05534D495448310F300D"
	"060355042A0C06524F42455254311830160603550405130F50415347422D353333333234343238310B3009060355040613024742305D3018"
	"060A2A7000020022652D0201060A2A7000020022652D0301034100F64CDDFFE4D546EF484471583FAEBA9A38061084E280BF996F90BA6AF0"
	"DB6620F59ABAA7AD29D4E7D1CA0C21DD9E32D485F9E740841F4317CA9481503D1F1B50A06F301F06092A864886F70D01090731120C102F49"
	"4E464F3A65726970323334313233304C06092A864886F70D01090E313F303D30170603551D200410300E300C060A2A7000020022654E023D"
	"30220603551D11041B30198117726F626572742E736D697468406578616D706C652E756B300D06092A7000020022652D0C050003310082B4"
	"F9F934E3FD457F5DF06AE63A88E722E35D35F565551535BA94CEF9243011999DF2159E4F4BAC22AD8C3135A3BD26";
#define CSR_LEN 382
static void gen_CSRRewrap(fc_ctx* c)
{
	bign_params p[1];
	octet* csr = fc_out(c, CSR_LEN);
	octet* d;
	octet Q[64];
	hexTo(csr, CSR_HEX);
	bignParamsStd(p, BN[0]);
	d = fc_sec(c, 32);
	c->tape_mode = 0;
	bignKeypairGen(d, Q, p, fc_tape, c);    /* a valid private key drawn from the secret stream */
	c->a[0] = csr, c->a[1] = d;
	c->n[0] = CSR_LEN, c->n[1] = 32;
	c->variant = 0;
}
static err_t call_CSRRewrap(fc_ctx* c)
{
	octet pub[64];
	size_t n = 0;
	err_t code = bpkiCSRRewrap(c->a[0], c->n[0], c->a[1], c->n[1]);
	if (code == ERR_OK && (bpkiCSRUnwrap(pub, &n, c->a[0], c->n[0]) != ERR_OK || n != 64))
		return ERR_BAD_LOGIC;   /* a reissued request verifies under the key it carries */
	return code;
}
static int bad_CSRRewrap(fc_ctx* c, int j, err_t* exp)
{
	octet* csr = (octet*)c->a[0];
	switch (j)
	{
	case 0: c->n[1] = 24; exp[0] = ERR_NOT_IMPLEMENTED; return 1;
	case 1: c->n[1] = 48; c->a[1] = fc_sec(c, 48); exp[0] = ERR_NOT_IMPLEMENTED; return 1;
	case 2: c->n[1] = 0; exp[0] = ERR_NOT_IMPLEMENTED; return 1;
	case 3: memset(c->a[1], 0, 32); exp[0] = ERR_BAD_PRIVKEY; return 1;
	case 4: memset(c->a[1], 0xFF, 32); exp[0] = ERR_BAD_PRIVKEY; return 1;
	case 5: c->n[0] = CSR_LEN - 1; exp[0] = ERR_BAD_FORMAT; return 1;
	case 6: csr[0] = 0x31; exp[0] = ERR_BAD_FORMAT; return 1;
	case 7: csr[3] ^= 1; exp[0] = ERR_BAD_FORMAT; return 1;            /* outer length */
	case 8: csr[118] ^= 1; exp[0] = ERR_BAD_FORMAT; return 1;          /* inside the public-key OID */
	case 9: csr[CSR_LEN - 50] ^= 0x10; exp[0] = ERR_BAD_FORMAT; return 1;   /* signature BIT STRING header */
	case 10: c->n[0] = 0; exp[0] = ERR_BAD_FORMAT; return 1;
	}
	return 0;
}
static void gen_CSRUnwrap(fc_ctx* c)
{
	octet* csr = fc_pub(c, CSR_LEN);
	hexTo(csr, CSR_HEX);
	if (fc_below(c, 2))
	{
		/* a reissued request */
		bign_params p[1];
		octet d[32], Q[64];
		bignParamsStd(p, BN[0]);
		c->tape_mode = 0;
		bignKeypairGen(d, Q, p, fc_tape, c);
		bpkiCSRRewrap(csr, CSR_LEN, d, 32);
	}
	c->a[2] = csr, c->n[2] = CSR_LEN;
	c->n[3] = fc_below(c, 4);   /* which outputs are requested */
	c->a[0] = (c->n[3] & 1) ? fc_out(c, 64) : 0;
	c->a[1] = (c->n[3] & 2) ? fc_out(c, sizeof(size_t)) : 0;
	c->variant = (int)c->n[3];
}
static err_t call_CSRUnwrap(fc_ctx* c) { return bpkiCSRUnwrap(c->a[0], (size_t*)c->a[1], c->a[2], c->n[2]); }
static int bad_CSRUnwrap(fc_ctx* c, int j, err_t* exp)
{
	octet* csr = (octet*)c->a[2];
	if (c->n[2] != CSR_LEN)
		return 0; /* already shortened by another variant */
	if (j == 0) { c->n[2] = CSR_LEN - 1 - fc_below(c, CSR_LEN - 1); c->a[2] = fc_cut(c, csr, c->n[2]); exp[0] = ERR_BAD_FORMAT; return 1; }   /* any proper prefix, exact size */
	if (j == 1) { c->n[2] = 0; exp[0] = ERR_BAD_FORMAT; return 1; }
	if (j < 42)
	{
		/* one altered octet anywhere: the request is malformed, carries an invalid key
		   or its signature no longer verifies - never ERR_OK */
		/* position = (j - 2) mod 40: two different variants applied together never hit the same octet */
		csr[(size_t)(j - 2) + 40 * fc_below(c, (CSR_LEN - (uint32_t)(j - 2) + 39) / 40)] ^= (octet)(1u << fc_below(c, 8));
		exp[0] = FC_ANYERR;
		return 1;
	}
	return 0;
}

/* --------------------------------------------------------------- bake Start */
/* a0 state (exactly _keep), a10 params, a11 settings, a1 privkey, a12 cert */
static err_t fc_certval(octet* pubkey, const bign_params* params, const octet* data, size_t len)
{
	if (len < params->l / 2)
		return ERR_BAD_CERT;
	if (pubkey)
		memcpy(pubkey, data + len - params->l / 2, params->l / 2);
	return ERR_OK;
}
static void gen_bakeStart(fc_ctx* c, int proto)
{
	bign_params* p = (bign_params*)fc_raw(c, sizeof(bign_params));
	bake_settings* st = (bake_settings*)fc_raw(c, sizeof(bake_settings));
	bake_cert* cert = (bake_cert*)fc_raw(c, sizeof(bake_cert));
	unsigned r = fc_below(c, 8);
	size_t l4, pref = fc_below(c, 40);
	octet* d;
	octet* cd;
	b2_params(p, r < 5 ? 32 : r < 7 ? 48 : 64);
	l4 = p->l / 4;
	memset(st, 0, sizeof(*st));
	st->kca = proto == 1 ? TRUE : (bool_t)fc_below(c, 2), st->kcb = proto == 1 ? TRUE : (bool_t)fc_below(c, 2);
	if (fc_below(c, 2)) st->helloa = fc_pub(c, 17), st->helloa_len = 17;
	if (fc_below(c, 2)) st->hellob = fc_pub(c, 5), st->hellob_len = 5;
	st->rng = fc_tape, st->rng_state = c;
	c->tape_mode = 0;
	d = fc_sec(c, proto == 2 ? 16 : l4);
	cd = fc_raw(c, pref + 2 * l4);
	if (proto != 2)
	{
		octet Q[128];
		bignKeypairGen(d, Q, p, fc_tape, c);
		memcpy(cd + pref, Q, 2 * l4);
	}
	cert->data = cd, cert->len = pref + 2 * l4, cert->val = fc_certval;
	c->a[10] = p, c->a[11] = st, c->a[12] = cert, c->a[1] = d;
	if (proto >= 3)
		st->kca = TRUE;          /* BAUTH: the terminal always confirms */
	c->n[0] = proto == 0 ? bakeBMQV_keep(p->l) : proto == 1 ? bakeBSTS_keep(p->l) : proto == 2 ? bakeBPACE_keep(p->l) :
		proto == 3 ? btokBAuthT_keep(p->l) : btokBAuthCT_keep(p->l);
	c->a[0] = sk_alloc(c->n[0]);
	c->n[5] = (size_t)proto;
	c->n[1] = proto == 2 ? 16 : l4;
	c->variant = (int)(proto * 1000 + p->l);
}
static void gen_BMQVStart(fc_ctx* c) { gen_bakeStart(c, 0); }
static void gen_BSTSStart(fc_ctx* c) { gen_bakeStart(c, 1); }
static void gen_BPACEStart(fc_ctx* c) { gen_bakeStart(c, 2); }
static void gen_BAuthTStart(fc_ctx* c) { gen_bakeStart(c, 3); }
static void gen_BAuthCTStart(fc_ctx* c) { gen_bakeStart(c, 4); }
static err_t call_bakeStart(fc_ctx* c)
{
	switch (c->n[5])
	{
	case 0: return bakeBMQVStart(c->a[0], c->a[10], c->a[11], c->a[1], c->a[12]);
	case 1: return bakeBSTSStart(c->a[0], c->a[10], c->a[11], c->a[1], c->a[12]);
	case 3: return btokBAuthTStart(c->a[0], c->a[10], c->a[11], c->a[1], c->a[12]);
	case 4: return btokBAuthCTStart(c->a[0], c->a[10], c->a[11], c->a[1], c->a[12]);
	default: return bakeBPACEStart(c->a[0], c->a[10], c->a[11], c->a[1], c->n[1]);
	}
}
static err_t bad_certval(octet* pubkey, const bign_params* params, const octet* data, size_t len)
{
	(void)pubkey, (void)params, (void)data, (void)len;
	return ERR_BAD_CERT;
}
static int bad_bakeStart(fc_ctx* c, int j, err_t* exp)
{
	bign_params* p = (bign_params*)c->a[10];
	bake_settings* st = (bake_settings*)c->a[11];
	bake_cert* cert = (bake_cert*)c->a[12];
	switch (j)
	{
	case 0: p->l = 100; exp[0] = ERR_BAD_PARAMS; return 1;
	case 1: p->l = 0; exp[0] = ERR_BAD_PARAMS; return 1;
	case 2: st->rng = 0; exp[0] = ERR_BAD_RNG; return 1;
	case 3:
		/* parameters that are not operable: p even */
		p->p[0] &= 0xFE; exp[0] = ERR_BAD_PARAMS; return 1;
	}
	if (c->n[5] == 2)
		return 0;
	switch (j)
	{
	case 4: cert->val = bad_certval; exp[0] = ERR_BAD_CERT; return 1;
	case 5: cert->data[cert->len - 1] ^= 1; exp[0] = ERR_BAD_CERT; return 1;     /* key off the curve */
	case 6: memset(cert->data + cert->len - p->l / 2, 0xFF, p->l / 4); exp[0] = ERR_BAD_CERT; return 1;  /* x >= p */
	case 7: cert->val = 0; exp[0] = ERR_BAD_INPUT; return 1;
	case 8: case 9:
		if (c->n[5] >= 3)
		{
			/* BAUTH: kca is mandatory, kcb optional */
			st->kca = FALSE; exp[0] = ERR_BAD_INPUT; return 1;
		}
		if (c->n[5] != 1)
		{
			/* BMQV: key confirmation is optional; nothing to violate here */
			st->rng = 0; exp[0] = ERR_BAD_RNG; return 1;
		}
		if (j == 8) st->kca = FALSE; else st->kcb = FALSE;
		exp[0] = ERR_BAD_INPUT; return 1;
	}
	return 0;
}

#define D(NAME, GEN, CALL, BAD, FLAGS) { NAME, GEN, CALL, BAD, FLAGS }
const fc_desc fc_params[] = {
	D("bignParamsGen", gen_ParamsGen, call_ParamsGen, bad_ParamsGen, FC_SLOW),
	D("pfokSeedVal", gen_pfokSeed, call_pfokSeedVal, bad_pfokSeed, 0),
	D("pfokSeedAdj", gen_pfokSeed, call_pfokSeedAdj, bad_pfokSeed, 0),
	D("pfokParamsVal", gen_pfokParamsVal, call_pfokParamsVal, bad_pfokParamsVal, FC_SLOW),
	D("pfokParamsGen", gen_pfokParamsGen, call_pfokParamsGen, bad_pfokParamsGen, FC_SLOW),
	D("stb99SeedVal", gen_stb99Seed, call_stb99SeedVal, bad_stb99Seed, 0),
	D("stb99SeedAdj", gen_stb99Seed, call_stb99SeedAdj, bad_stb99Seed, 0),
	D("stb99ParamsVal", gen_stb99ParamsVal, call_stb99ParamsVal, bad_stb99ParamsVal, FC_SLOW),
	D("stb99ParamsGen", gen_stb99ParamsGen, call_stb99ParamsGen, bad_stb99ParamsGen, FC_SLOW),
	D("dstuParamsVal", gen_dstuParamsVal, call_dstuParamsVal, bad_dstuParamsVal, FC_SLOW),
	D("bpkiCSRRewrap", gen_CSRRewrap, call_CSRRewrap, bad_CSRRewrap, FC_SECRET),
	D("bpkiCSRUnwrap", gen_CSRUnwrap, call_CSRUnwrap, bad_CSRUnwrap, 0),
	D("bakeBMQVStart", gen_BMQVStart, call_bakeStart, bad_bakeStart, FC_SECRET),
	D("bakeBSTSStart", gen_BSTSStart, call_bakeStart, bad_bakeStart, FC_SECRET),
	D("bakeBPACEStart", gen_BPACEStart, call_bakeStart, bad_bakeStart, FC_SECRET),
	D("btokBAuthTStart", gen_BAuthTStart, call_bakeStart, bad_bakeStart, FC_SECRET),
	D("btokBAuthCTStart", gen_BAuthCTStart, call_bakeStart, bad_bakeStart, FC_SECRET),
};
const unsigned fc_params_n = sizeof(fc_params) / sizeof(fc_params[0]);
