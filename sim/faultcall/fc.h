/* faultcall: table-driven single-call simulations (C09, C15, C07). */
#ifndef FC_H
#define FC_H
#include "simk.h"
#include <string.h>
#include "bee2/defs.h"
#include "bee2/core/err.h"

typedef struct { octet* p; size_t n; } fc_span;

typedef struct fc_ctx {
	sk_rng rng;          /* public argument stream */
	sk_rng srng;         /* secret stream (differs between the two C15 runs) */
	sk_rng tape;         /* caller's generator (gen_i), seeded from srng */
	int tape_mode;       /* 0 uniform, 1 all zero, 2 all 0xFF, 3 the first draw is c->craft (then uniform) */
	const octet* craft; size_t craft_len; int craft_used;
	void* a[32];         /* argument slots */
	size_t n[32];
	fc_span outs[8]; int nouts;   /* output buffers (exact size, sentinel-filled) */
	fc_span secs[8]; int nsecs;   /* raw secrets */
	fc_span pubs[8]; int npubs;   /* public inputs that depend on the secret */
	const octet* plain; size_t plain_len; /* what an auth failure must not release */
	octet* dest; size_t dest_len;
	int variant;         /* descriptor-specific sub-case chosen by gen */
	int no_rng;          /* FC_RNG(c) yields a null generator */
	const char* damage;  /* set by a call that found the library in a damaged state after a failed call (C09 "errors, not damage") */
	const char* claim;   /* set by a call whose self-check found what C07 itself forbids: a result that points outside the caller's buffer, or an output reported but never written */
} fc_ctx;

octet* fc_pub(fc_ctx* c, size_t n);    /* public input, exact size, from c->rng */
octet* fc_sec(fc_ctx* c, size_t n);    /* secret input, exact size, from c->srng */
octet* fc_out(fc_ctx* c, size_t n);    /* output buffer, exact size, 0xCD-filled */
octet* fc_raw(fc_ctx* c, size_t n);    /* scratch, neither secret nor output */
octet* fc_cut(fc_ctx* c, const void* p, size_t n); /* exact-size copy of the first n octets: a truncated input must not keep the slack of the original buffer */
void fc_mark_pub(fc_ctx* c, const void* p, size_t n);
void fc_mark_sec(fc_ctx* c, const void* p, size_t n);
void fc_tape(void* buf, size_t count, void* state);  /* gen_i over c->tape */
#define FC_RNG(c) ((c)->no_rng ? (gen_i)0 : fc_tape)
uint32_t fc_below(fc_ctx* c, uint32_t n);
#define FC_PICK(c, arr) ((arr)[fc_below((c), (uint32_t)(sizeof(arr) / sizeof((arr)[0])))])

#define FC_SECRET 1u   /* processes a secret: subject of C15 */
#define FC_AUTH   2u   /* authenticated unwrap: corrupted input must not release plaintext */
#define FC_SLOW   4u   /* expensive call: sampled less often */
#define FC_MATH   8u   /* arithmetic layer with caller-owned stack: C07 base mode only */
#define FC_RNGARG 32u  /* the call passes the caller's generator as FC_RNG(c): the engine adds the variant rng == 0 -> ERR_BAD_RNG */
#define FC_KEYOUT 16u  /* outputs are keys released by a verification: after a failed call each output is untouched or constant */
#define FC_ANYERR ((err_t)0xFFFFFFFEu)  /* "any error code" in an expect list */
/* soft variant: the header's \expect condition is of the hard-to-check kind
   (util.h: EXPECT conditions "may be violated ... programs must work stably"),
   so acceptance is allowed; only robustness (no crash, no leak) is demanded */
#define FC_SOFT(exp) ((exp)[0] = ERR_OK, (exp)[1] = FC_ANYERR, 2)

typedef struct fc_desc {
	const char* name;
	void (*gen)(fc_ctx* c);                    /* draw a valid call */
	err_t (*call)(fc_ctx* c);                  /* perform it (heap armed by the engine) */
	int (*bad)(fc_ctx* c, int j, err_t* exp);  /* j-th invalid variant: returns #acceptable codes, 0 = none */
	unsigned flags;
} fc_desc;

extern const fc_desc fc_belt[]; extern const unsigned fc_belt_n;
extern const fc_desc fc_misc[]; extern const unsigned fc_misc_n;
extern const fc_desc fc_bign[]; extern const unsigned fc_bign_n;
extern const fc_desc fc_proto[]; extern const unsigned fc_proto_n;
extern const fc_desc fc_math[]; extern const unsigned fc_math_n;
extern const fc_desc fc_math2[]; extern const unsigned fc_math2_n;
extern const fc_desc fc_params[]; extern const unsigned fc_params_n;
extern const fc_desc fc_ww[]; extern const unsigned fc_ww_n;
extern const fc_desc fc_rng[]; extern const unsigned fc_rng_n;
extern const fc_desc fc_util[]; extern const unsigned fc_util_n;
extern const fc_desc fc_sm[]; extern const unsigned fc_sm_n;
extern const fc_desc fc_other[]; extern const unsigned fc_other_n;
extern const fc_desc fc_der[]; extern const unsigned fc_der_n;

#endif
