/* Descriptors: secure messaging as single calls (C09; the dialogue with counters and
   altered octets is protosim/sm).  Here: the unprotected mode (state == 0: coding only),
   length queries, and the header's error classes - a command whose protection bit is
   already set, a code that is protected when it must not be (and vice versa), a counter
   of the wrong parity. */
#include "fc.h"
#include "bee2/core/apdu.h"
#include "bee2/core/mem.h"
#include "bee2/crypto/btok.h"

/* a1 cmd, a2 state (or 0), a3 peer state, n0 cdf, n3 mode: 0 protected, 1 plain */
static void gen_sm_cmd(fc_ctx* c, int unwrap)
{
	static const size_t lens[] = { 0, 1, 2, 16, 255, 256, 257, 300 };
	static const size_t les[] = { 0, 1, 255, 256, 257, 65535, 65536 };
	size_t cdf = FC_PICK(c, lens), n = 0;
	apdu_cmd_t* cmd = (apdu_cmd_t*)fc_raw(c, sizeof(apdu_cmd_t) + cdf);
	octet* rnd = fc_pub(c, 8);
	octet* key = fc_sec(c, 32);
	int plain = fc_below(c, 3) == 0;
	memset(cmd, 0, sizeof(apdu_cmd_t));
	cmd->cla = rnd[0] & 0xFB, cmd->ins = rnd[1], cmd->p1 = rnd[2], cmd->p2 = rnd[3];
	cmd->cdf_len = cdf, cmd->rdf_len = FC_PICK(c, les);
	sk_bytes(&c->srng, cmd->cdf, cdf);
	fc_mark_sec(c, cmd->cdf, cdf);
	c->a[1] = cmd, c->n[0] = cdf, c->n[3] = (size_t)plain;
	c->a[2] = c->a[3] = 0;
	if (!plain)
	{
		c->a[2] = sk_alloc(btokSM_keep()), c->a[3] = sk_alloc(btokSM_keep());
		btokSMStart(c->a[2], key), btokSMStart(c->a[3], key);
		btokSMCtrInc(c->a[2]), btokSMCtrInc(c->a[3]);       /* odd: commands */
	}
	btokSMCmdWrap(0, &n, cmd, c->a[2]);
	c->n[1] = n;
	if (!unwrap)
	{
		c->a[0] = fc_out(c, n ? n : 1);
		c->a[4] = fc_out(c, sizeof(size_t));
	}
	else
	{
		octet* apdu = fc_raw(c, n ? n : 1);
		size_t n1 = n;
		btokSMCmdWrap(apdu, &n1, cmd, c->a[2]);
		fc_mark_pub(c, apdu, n);
		c->a[5] = apdu;
		c->a[0] = fc_out(c, sizeof(apdu_cmd_t) + cdf);
		c->a[4] = fc_out(c, sizeof(size_t));
	}
	c->n[6] = c->n[1];
	c->variant = (int)(cdf * 10 + plain);
}
static void gen_SMCmdWrap(fc_ctx* c) { gen_sm_cmd(c, 0); }
static void gen_SMCmdUnwrap(fc_ctx* c) { gen_sm_cmd(c, 1); }
static err_t call_SMCmdWrap(fc_ctx* c)
{
	size_t n = 0;
	err_t code = btokSMCmdWrap(0, &n, c->a[1], c->a[2]);
	if (code != ERR_OK)
		return code;
	if (n != c->n[1])
		return ERR_BAD_LOGIC;
	code = btokSMCmdWrap(c->a[0], (size_t*)c->a[4], c->a[1], c->a[2]);
	if (code == ERR_OK && *(size_t*)c->a[4] != n)
		return ERR_BAD_LOGIC;
	return code;
}
static err_t call_SMCmdUnwrap(fc_ctx* c)
{
	size_t sz = 0;
	apdu_cmd_t* in = (apdu_cmd_t*)c->a[1];
	apdu_cmd_t* got = (apdu_cmd_t*)c->a[0];
	err_t code = btokSMCmdUnwrap(0, &sz, c->a[5], c->n[1], c->a[3]);
	if (code != ERR_OK)
		return code;
	if (sz != sizeof(apdu_cmd_t) + c->n[0])
		return ERR_BAD_LOGIC;
	code = btokSMCmdUnwrap(got, (size_t*)c->a[4], c->a[5], c->n[1], c->a[3]);
	if (code == ERR_OK && (got->cdf_len != in->cdf_len || got->rdf_len != in->rdf_len || got->ins != in->ins ||
			(got->cla & 0xFB) != (in->cla & 0xFB) || memcmp(got->cdf, in->cdf, in->cdf_len)))
		return ERR_BAD_LOGIC;
	return code;
}
static int bad_SMCmdWrap(fc_ctx* c, int j, err_t* exp)
{
	apdu_cmd_t* cmd = (apdu_cmd_t*)c->a[1];
	switch (j)
	{
	case 0:
		/* the protection bit is already set in a command that is to be protected */
		if (c->n[3])
			return FC_SOFT(exp);   /* unprotected coding takes the class octet as it is */
		cmd->cla |= 0x04; exp[0] = ERR_BAD_APDU; return 1;
	case 1:
		/* commands are protected at odd counter values */
		if (c->n[3])
			return FC_SOFT(exp);
		btokSMCtrInc(c->a[2]); exp[0] = ERR_BAD_LOGIC; return 1;
	case 2: cmd->rdf_len = 65537; exp[0] = ERR_BAD_APDU; return 1;
	case 3: cmd->cdf_len = 65536; exp[0] = ERR_BAD_APDU; return 1;   /* beyond extended Lc; the data is not read */
	}
	return 0;
}
static int bad_SMCmdUnwrap(fc_ctx* c, int j, err_t* exp)
{
	octet* apdu = (octet*)c->a[5];
	exp[0] = ERR_BAD_APDU;
	if (c->n[1] != c->n[6])
		return 0; /* already shortened by another variant */
	switch (j)
	{
	case 0: apdu[0] ^= 0x04; return 1;                       /* protected <-> unprotected class for this state */
	case 1:
		if (c->n[3])
			return FC_SOFT(exp);
		btokSMCtrInc(c->a[3]); exp[0] = ERR_BAD_LOGIC; return 1;
	case 2: if (c->n[1] < 3) return FC_SOFT(exp); c->n[1] = 3, c->a[5] = fc_cut(c, apdu, 3); return 1;   /* shorter than a header */
	case 3:
		if (c->n[3])
			return FC_SOFT(exp);
		apdu[c->n[1] - 1] ^= 1; exp[0] = FC_ANYERR; return 1;  /* MAC */
	case 4:
	{
		/* truncated by 1 or 2 octets (the trailing Le* field missing or cut short), in a buffer of
		   exactly the shorter length */
		size_t cut = 1 + fc_below(c, 2);
		if (c->n[1] < 6 + cut)
			return FC_SOFT(exp);
		c->n[1] -= cut, c->a[5] = fc_cut(c, apdu, c->n[1]);
		exp[0] = FC_ANYERR;
		return 1;
	}
	case 5:
	{
		/* any shorter prefix, exact size */
		if (c->n[1] < 2)
			return FC_SOFT(exp);
		c->n[1] = fc_below(c, (uint32_t)c->n[1]), c->a[5] = fc_cut(c, apdu, c->n[1]);
		exp[0] = FC_ANYERR;
		return 1;
	}
	}
	return 0;
}

/* responses: a1 resp, a2 state, a3 peer state */
static void gen_sm_resp(fc_ctx* c, int unwrap)
{
	static const size_t lens[] = { 0, 1, 2, 16, 255, 256, 257, 300 };
	size_t rdf = FC_PICK(c, lens), n = 0;
	apdu_resp_t* resp = (apdu_resp_t*)fc_raw(c, sizeof(apdu_resp_t) + rdf);
	octet* rnd = fc_pub(c, 8);
	octet* key = fc_sec(c, 32);
	int plain = fc_below(c, 3) == 0;
	memset(resp, 0, sizeof(apdu_resp_t));
	resp->sw1 = rnd[0], resp->sw2 = rnd[1], resp->rdf_len = rdf;
	sk_bytes(&c->srng, resp->rdf, rdf);
	fc_mark_sec(c, resp->rdf, rdf);
	c->a[1] = resp, c->n[0] = rdf, c->n[3] = (size_t)plain;
	c->a[2] = c->a[3] = 0;
	if (!plain)
	{
		c->a[2] = sk_alloc(btokSM_keep()), c->a[3] = sk_alloc(btokSM_keep());
		btokSMStart(c->a[2], key), btokSMStart(c->a[3], key);
		btokSMCtrInc(c->a[2]), btokSMCtrInc(c->a[3]);
		btokSMCtrInc(c->a[2]), btokSMCtrInc(c->a[3]);       /* even: responses */
	}
	btokSMRespWrap(0, &n, resp, c->a[2]);
	c->n[1] = n;
	if (!unwrap)
	{
		c->a[0] = fc_out(c, n ? n : 1);
		c->a[4] = fc_out(c, sizeof(size_t));
	}
	else
	{
		octet* apdu = fc_raw(c, n ? n : 1);
		size_t n1 = n;
		btokSMRespWrap(apdu, &n1, resp, c->a[2]);
		fc_mark_pub(c, apdu, n);
		c->a[5] = apdu;
		c->a[0] = fc_out(c, sizeof(apdu_resp_t) + rdf);
		c->a[4] = fc_out(c, sizeof(size_t));
	}
	c->n[6] = c->n[1];
	c->variant = (int)(rdf * 10 + plain);
}
static void gen_SMRespWrap(fc_ctx* c) { gen_sm_resp(c, 0); }
static void gen_SMRespUnwrap(fc_ctx* c) { gen_sm_resp(c, 1); }
static err_t call_SMRespWrap(fc_ctx* c)
{
	size_t n = 0;
	err_t code = btokSMRespWrap(0, &n, c->a[1], c->a[2]);
	if (code != ERR_OK)
		return code;
	if (n != c->n[1])
		return ERR_BAD_LOGIC;
	code = btokSMRespWrap(c->a[0], (size_t*)c->a[4], c->a[1], c->a[2]);
	if (code == ERR_OK && *(size_t*)c->a[4] != n)
		return ERR_BAD_LOGIC;
	return code;
}
static err_t call_SMRespUnwrap(fc_ctx* c)
{
	size_t sz = 0;
	apdu_resp_t* in = (apdu_resp_t*)c->a[1];
	apdu_resp_t* got = (apdu_resp_t*)c->a[0];
	err_t code = btokSMRespUnwrap(0, &sz, c->a[5], c->n[1], c->a[3]);
	if (code != ERR_OK)
		return code;
	if (sz != sizeof(apdu_resp_t) + c->n[0])
		return ERR_BAD_LOGIC;
	code = btokSMRespUnwrap(got, (size_t*)c->a[4], c->a[5], c->n[1], c->a[3]);
	if (code == ERR_OK && (got->rdf_len != in->rdf_len || got->sw1 != in->sw1 || got->sw2 != in->sw2 || memcmp(got->rdf, in->rdf, in->rdf_len)))
		return ERR_BAD_LOGIC;
	return code;
}
static int bad_SMRespWrap(fc_ctx* c, int j, err_t* exp)
{
	apdu_resp_t* resp = (apdu_resp_t*)c->a[1];
	switch (j)
	{
	case 0:
		if (c->n[3])
			return FC_SOFT(exp);
		btokSMCtrInc(c->a[2]); exp[0] = ERR_BAD_LOGIC; return 1;   /* responses are protected at even counters */
	case 1: resp->rdf_len = 65537; exp[0] = ERR_BAD_APDU; return 1;
	}
	return 0;
}
static int bad_SMRespUnwrap(fc_ctx* c, int j, err_t* exp)
{
	octet* apdu = (octet*)c->a[5];
	exp[0] = FC_ANYERR;
	if (c->n[1] != c->n[6])
		return 0; /* already shortened by another variant */
	switch (j)
	{
	case 0:
		if (c->n[3])
			return FC_SOFT(exp);
		btokSMCtrInc(c->a[3]); exp[0] = ERR_BAD_LOGIC; return 1;
	case 1: c->n[1] = 1, c->a[5] = fc_cut(c, apdu, 1); exp[0] = ERR_BAD_APDU; return 1;     /* shorter than the status words */
	case 2:
		if (c->n[3] || c->n[1] < 12)
			return FC_SOFT(exp);
		apdu[c->n[1] - 3] ^= 1; return 1;                     /* MAC */
	case 3:
		if (c->n[3] || c->n[1] < 12)
			return FC_SOFT(exp);
		apdu[0] ^= 0x80; return 1;                            /* first protected octet */
	case 4:
	{
		/* truncated response, exact size (always an error: the status words or the MAC object go) */
		size_t cut = 1 + fc_below(c, 3);
		if (c->n[1] < 2 + cut)
			return FC_SOFT(exp);
		c->n[1] -= cut, c->a[5] = fc_cut(c, apdu, c->n[1]);
		return 1;
	}
	case 5:
		if (c->n[1] < 3)
			return FC_SOFT(exp);
		c->n[1] = 2 + fc_below(c, (uint32_t)c->n[1] - 2), c->a[5] = fc_cut(c, apdu, c->n[1]);
		return 1;
	}
	return 0;
}

#define D(NAME, GEN, CALL, BAD, FLAGS) { NAME, GEN, CALL, BAD, FLAGS }
const fc_desc fc_sm[] = {
	D("btokSMCmdWrap", gen_SMCmdWrap, call_SMCmdWrap, bad_SMCmdWrap, 0),
	D("btokSMCmdUnwrap", gen_SMCmdUnwrap, call_SMCmdUnwrap, bad_SMCmdUnwrap, 0),
	D("btokSMRespWrap", gen_SMRespWrap, call_SMRespWrap, bad_SMRespWrap, 0),
	D("btokSMRespUnwrap", gen_SMRespUnwrap, call_SMRespUnwrap, bad_SMRespUnwrap, 0),
};
const unsigned fc_sm_n = sizeof(fc_sm) / sizeof(fc_sm[0]);
