/* Descriptors: the remaining public-key schemes (g12s, dstu, pfok). */
#include "fc.h"
#include "bee2/core/mem.h"
#include "bee2/crypto/g12s.h"
#include "bee2/crypto/dstu.h"
#include "bee2/crypto/pfok.h"

/* ------------------------------------------------------------------ g12s */
static const char* G12S[] = { "1.2.643.2.2.35.0", "1.2.643.2.2.35.1", "1.2.643.2.2.35.2", "1.2.643.2.2.35.3",
	"1.2.643.2.9.1.8.1", "1.2.643.7.1.2.1.2.0", "1.2.643.7.1.2.1.2.1", "1.2.643.7.1.2.1.2.2" };

/* a10 params, n10 mo (octets of a scalar), a11 privkey, a12 pubkey */
static void g12s_load(fc_ctx* c)
{
	g12s_params* p = (g12s_params*)fc_raw(c, sizeof(g12s_params));
	unsigned k = fc_below(c, 10);
	g12sParamsStd(p, G12S[k < 8 ? k : k - 8]);
	c->a[10] = p, c->n[10] = p->l / 8;
	c->variant = (int)(k < 8 ? k : k - 8);
}
static void g12s_keys(fc_ctx* c)
{
	size_t mo = c->n[10];
	octet* d = (octet*)sk_alloc(mo);
	octet* Q = (octet*)sk_alloc(2 * mo);
	g12sKeypairGen(d, Q, c->a[10], fc_tape, c);
	fc_mark_sec(c, d, mo), fc_mark_pub(c, Q, 2 * mo);
	c->a[11] = d, c->a[12] = Q;
}
static int g12s_bad_params(fc_ctx* c, int j, err_t* exp)
{
	g12s_params* p = (g12s_params*)c->a[10];
	exp[0] = ERR_BAD_PARAMS;
	switch (j)
	{
	case 0: p->l = 0; return 1;
	case 1: p->l = 255; return 1;
	case 2: p->l = 384; return 1;
	case 3: p->l = 1024; return 1;
	}
	return 0;
}
static void gen_g12sKeypairGen(fc_ctx* c)
{
	g12s_load(c);
	c->a[0] = fc_out(c, c->n[10]), c->a[1] = fc_out(c, 2 * c->n[10]);
	fc_mark_sec(c, c->a[0], c->n[10]);
}
static err_t call_g12sKeypairGen(fc_ctx* c) { return g12sKeypairGen(c->a[0], c->a[1], c->a[10], FC_RNG(c), c); }
static int bad_g12sKeypairGen(fc_ctx* c, int j, err_t* exp)
{
	if (j < 4)
		return g12s_bad_params(c, j, exp);
	if (j == 4)
	{
		c->tape_mode = 1;
		exp[0] = ERR_BAD_RNG, exp[1] = FC_ANYERR;
		return 2;
	}
	return 0;
}
static void gen_g12sSign(fc_ctx* c)
{
	g12s_load(c);
	g12s_keys(c);
	c->a[1] = fc_pub(c, c->n[10]);
	switch (fc_below(c, 6))
	{
	case 0: memset(c->a[1], 0, c->n[10]); break;      /* GOST maps a zero hash to 1 */
	case 1: memset(c->a[1], 0xFF, c->n[10]); break;   /* hash >= q */
	}
	c->a[0] = fc_out(c, 2 * c->n[10]);
}
static err_t call_g12sSign(fc_ctx* c) { return g12sSign(c->a[0], c->a[10], c->a[1], c->a[11], FC_RNG(c), c); }
static int bad_g12sSign(fc_ctx* c, int j, err_t* exp)
{
	if (j < 4)
		return g12s_bad_params(c, j, exp);
	j -= 4;
	exp[0] = ERR_BAD_PRIVKEY;
	switch (j)
	{
	case 0: memset(c->a[11], 0, c->n[10]); return 1;
	case 1: memset(c->a[11], 0xFF, c->n[10]); return 1;
	case 2: c->tape_mode = 1; exp[0] = ERR_BAD_RNG, exp[1] = FC_ANYERR; return 2;
	}
	return 0;
}

/* comp (len octets, big-endian if big) += order (olen octets, little-endian), the non-canonical
   encoding of the same residue; when the sum does not fit, comp becomes FF..FF (>= order as well) */
static void add_order(octet* comp, size_t len, int big, const octet* order, size_t olen)
{
	unsigned carry = 0;
	size_t i;
	for (i = 0; i < len; ++i)
	{
		octet* d = big ? comp + len - 1 - i : comp + i;
		unsigned v = (unsigned)*d + (i < olen ? order[i] : 0) + carry;
		*d = (octet)v, carry = v >> 8;
	}
	if (carry)
		memset(comp, 0xFF, len);
}
static void gen_g12sVerify(fc_ctx* c)
{
	octet* s;
	gen_g12sSign(c);
	c->nouts = 0;
	s = fc_raw(c, 2 * c->n[10]);
	g12sSign(s, c->a[10], c->a[1], c->a[11], fc_tape, c);
	c->a[3] = s;
}
static err_t call_g12sVerify(fc_ctx* c) { return g12sVerify(c->a[10], c->a[1], c->a[3], c->a[12]); }
static int bad_g12sVerify(fc_ctx* c, int j, err_t* exp)
{
	size_t mo = c->n[10];
	if (j < 4)
		return g12s_bad_params(c, j, exp);
	j -= 4;
	exp[0] = ERR_BAD_SIG, exp[1] = ERR_BAD_PUBKEY;
	switch (j)
	{
	case 0: ((octet*)c->a[3])[fc_below(c, (uint32_t)(2 * mo))] ^= (octet)(1u << fc_below(c, 8)); return 1;
	case 1: ((octet*)c->a[1])[fc_below(c, (uint32_t)mo)] ^= (octet)(2u << fc_below(c, 7)); return 1; /* not bit 0 of octet 0: 0 -> 1 is GOST's own rule */
	case 2: ((octet*)c->a[12])[fc_below(c, (uint32_t)(2 * mo))] ^= 1; return 2;
	case 3: memset(c->a[12], 0xFF, 2 * mo); return 2;
	case 4: memset(c->a[3], 0, 2 * mo); return 1;
	/* r or s replaced by the same residue plus the group order: g12s.h demands r, s < q */
	case 5: add_order((octet*)c->a[3] + mo, mo, 1, ((g12s_params*)c->a[10])->q, mo); exp[1] = ERR_BAD_SIG; return 1;
	case 6: add_order((octet*)c->a[3], mo, 1, ((g12s_params*)c->a[10])->q, mo); exp[1] = ERR_BAD_SIG; return 1;
	}
	return 0;
}
static void gen_g12sParamsVal(fc_ctx* c) { g12s_load(c); }
static err_t call_g12sParamsVal(fc_ctx* c) { return g12sParamsVal(c->a[10]); }

/* ------------------------------------------------------------------ dstu */
static const char* DSTU[] = { "1.2.804.2.1.1.1.1.3.1.1.1.2.0", "1.2.804.2.1.1.1.1.3.1.1.1.2.1", "1.2.804.2.1.1.1.1.3.1.1.1.2.2",
	"1.2.804.2.1.1.1.1.3.1.1.1.2.3", "1.2.804.2.1.1.1.1.3.1.1.1.2.4", "1.2.804.2.1.1.1.1.3.1.1.1.2.5" };

/* a10 params, n10 = O_OF_B(m), n11 = order_no */
static void dstu_load(fc_ctx* c, int need_base)
{
	dstu_params* p = (dstu_params*)fc_raw(c, sizeof(dstu_params));
	unsigned k = fc_below(c, 8);
	k = k < 6 ? k : 0;
	dstuParamsStd(p, DSTU[k]);
	c->a[10] = p;
	c->n[10] = O_OF_B(p->p[0]);
	c->n[11] = memNonZeroSize(p->n, c->n[10]);
	if (need_base && k != 0)
		dstuPointGen(p->P, p, fc_tape, c); /* the standard fixes no base point for these curves */
	c->variant = (int)p->p[0];
}
static void dstu_keys(fc_ctx* c)
{
	octet* d = (octet*)sk_alloc(c->n[11]);
	octet* Q = (octet*)sk_alloc(2 * c->n[10]);
	dstuKeypairGen(d, Q, c->a[10], fc_tape, c);
	fc_mark_sec(c, d, c->n[11]), fc_mark_pub(c, Q, 2 * c->n[10]);
	c->a[11] = d, c->a[12] = Q;
}
static int dstu_bad_params(fc_ctx* c, int j, err_t* exp)
{
	dstu_params* p = (dstu_params*)c->a[10];
	exp[0] = ERR_BAD_PARAMS;
	switch (j)
	{
	case 0: p->p[0] = 0; return 1;
	case 1: p->p[0] = 600; return 1;          /* beyond DSTU_SIZE */
	case 2: p->p[1] = p->p[0]; return 1;      /* k1 not below m */
	case 3: p->A = 2; return 1;
	}
	return 0;
}
static void gen_dstuPointGen(fc_ctx* c)
{
	dstu_load(c, 0);
	c->a[0] = fc_out(c, 2 * c->n[10]);
}
static err_t call_dstuPointGen(fc_ctx* c) { return dstuPointGen(c->a[0], c->a[10], FC_RNG(c), c); }
static int bad_dstu_gen(fc_ctx* c, int j, err_t* exp)
{
	/* no dead-generator variant here: dstuPointGen/dstuKeypairGen/dstuSign draw
	   in an unbounded loop until a usable value appears, so an all-zero
	   generator never returns (observation in DESIGN.md §12.3; the generator is
	   not an argument the property lists, and a hang cannot be a quick check) */
	return dstu_bad_params(c, j, exp);
}
static void gen_dstuKeypairGen(fc_ctx* c)
{
	dstu_load(c, 1);
	c->a[0] = fc_out(c, c->n[11]), c->a[1] = fc_out(c, 2 * c->n[10]);
	fc_mark_sec(c, c->a[0], c->n[11]);
}
static err_t call_dstuKeypairGen(fc_ctx* c) { return dstuKeypairGen(c->a[0], c->a[1], c->a[10], FC_RNG(c), c); }
static void gen_dstuPointVal(fc_ctx* c) { dstu_load(c, 1); dstu_keys(c); c->nsecs = 0; }
static err_t call_dstuPointVal(fc_ctx* c) { return dstuPointVal(c->a[10], c->a[12]); }
static int bad_dstuPointVal(fc_ctx* c, int j, err_t* exp)
{
	if (j < 4)
		return dstu_bad_params(c, j, exp);
	j -= 4;
	exp[0] = FC_ANYERR;
	switch (j)
	{
	case 0: ((octet*)c->a[12])[fc_below(c, (uint32_t)c->n[10])] ^= (octet)(1u << fc_below(c, 8)); return 1; /* x altered: off the curve */
	case 1: ((octet*)c->a[12])[c->n[10] + fc_below(c, (uint32_t)(c->n[10] - 1))] ^= 1; return 1;
	}
	return 0;
}
static void gen_dstuCompress(fc_ctx* c)
{
	dstu_load(c, 1);
	dstu_keys(c);
	c->nsecs = 0;
	c->a[0] = fc_out(c, c->n[10]);
}
static err_t call_dstuCompress(fc_ctx* c) { return dstuPointCompress(c->a[0], c->a[10], c->a[12]); }
static void gen_dstuRecover(fc_ctx* c)
{
	octet* x;
	dstu_load(c, 1);
	dstu_keys(c);
	c->nsecs = 0;
	x = fc_raw(c, c->n[10]);
	dstuPointCompress(x, c->a[10], c->a[12]);
	c->a[1] = x;
	c->a[0] = fc_out(c, 2 * c->n[10]);
}
static err_t call_dstuRecover(fc_ctx* c) { return dstuPointRecover(c->a[0], c->a[10], c->a[1]); }
static void gen_dstuSign(fc_ctx* c)
{
	static const size_t hl[] = { 1, 20, 21, 32, 64, 100 };
	dstu_load(c, 1);
	dstu_keys(c);
	c->n[2] = 16 * ((2 * 8 * c->n[11] + 15) / 16) + 16 * fc_below(c, 3);   /* ld: multiple of 16 holding two residues */
	c->n[1] = FC_PICK(c, hl);
	c->a[1] = fc_pub(c, c->n[1]);
	if (fc_below(c, 6) == 0)
		memset(c->a[1], 0, c->n[1]);
	c->a[0] = fc_out(c, c->n[2] / 8);
}
static err_t call_dstuSign(fc_ctx* c) { return dstuSign(c->a[0], c->a[10], c->n[2], c->a[1], c->n[1], c->a[11], FC_RNG(c), c); }
static int bad_dstuSign(fc_ctx* c, int j, err_t* exp)
{
	if (j < 4)
		return dstu_bad_params(c, j, exp);
	j -= 4;
	switch (j)
	{
	case 0: c->n[2] += 8; exp[0] = ERR_BAD_INPUT; return 1;                 /* not a multiple of 16 */
	case 1: c->n[2] = 16; exp[0] = ERR_BAD_INPUT; return 1;                 /* too short for two residues */
	case 2: c->n[2] = 0; exp[0] = ERR_BAD_INPUT; return 1;
	case 3: memset(c->a[11], 0, c->n[11]); exp[0] = ERR_BAD_PRIVKEY; return 1;
	case 4: memset(c->a[11], 0xFF, c->n[11]); exp[0] = ERR_BAD_PRIVKEY; return 1;
	}
	return 0;
}
static void gen_dstuVerify(fc_ctx* c)
{
	octet* s;
	gen_dstuSign(c);
	c->nouts = 0;
	s = fc_raw(c, c->n[2] / 8);
	dstuSign(s, c->a[10], c->n[2], c->a[1], c->n[1], c->a[11], fc_tape, c);
	c->a[3] = s;
}
static err_t call_dstuVerify(fc_ctx* c) { return dstuVerify(c->a[10], c->n[2], c->a[1], c->n[1], c->a[3], c->a[12]); }
static int bad_dstuVerify(fc_ctx* c, int j, err_t* exp)
{
	if (j < 4)
		return dstu_bad_params(c, j, exp);
	j -= 4;
	exp[0] = FC_ANYERR;
	switch (j)
	{
	case 0: ((octet*)c->a[3])[fc_below(c, (uint32_t)c->n[11])] ^= (octet)(1u << fc_below(c, 8)); return 1;
	case 1: ((octet*)c->a[3])[c->n[2] / 16 + fc_below(c, (uint32_t)c->n[11])] ^= 1; return 1;
	case 2: ((octet*)c->a[12])[fc_below(c, (uint32_t)c->n[10])] ^= (octet)(1u << fc_below(c, 8)); return 1;
	case 3: memset(c->a[3], 0, c->n[2] / 8); return 1;
	/* r or s plus the order: same residue, but not below the order */
	case 4: add_order((octet*)c->a[3], c->n[2] / 16, 0, ((dstu_params*)c->a[10])->n, c->n[11]); return 1;
	case 5: add_order((octet*)c->a[3] + c->n[2] / 16, c->n[2] / 16, 0, ((dstu_params*)c->a[10])->n, c->n[11]); return 1;
	}
	return 0;
}

/* ------------------------------------------------------------------ pfok */
/* a10 params, n10 no = O_OF_B(l), n11 mo = O_OF_B(r), n12 = O_OF_B(n) */
static void pfok_load(fc_ctx* c)
{
	pfok_params* p = (pfok_params*)fc_raw(c, sizeof(pfok_params));
	pfokParamsStd(p, 0, "test");
	c->a[10] = p;
	c->n[10] = O_OF_B(p->l), c->n[11] = O_OF_B(p->r), c->n[12] = O_OF_B(p->n);
	c->variant = (int)p->l;
}
static void pfok_pair(fc_ctx* c, int ps, int qs)
{
	octet* d = (octet*)sk_alloc(c->n[11]);
	octet* Q = (octet*)sk_alloc(c->n[10]);
	pfokKeypairGen(d, Q, c->a[10], fc_tape, c);
	c->a[ps] = d, c->a[qs] = Q;
}
static int pfok_bad_params(fc_ctx* c, int j, err_t* exp)
{
	pfok_params* p = (pfok_params*)c->a[10];
	exp[0] = ERR_BAD_PARAMS;
	switch (j)
	{
	case 0: p->l = 0; return 1;
	case 1: p->l = 3000; return 1;
	case 2: p->r = p->l + 1; return 1;
	case 3: p->r = 0; return 1;
	}
	return 0;
}
static void gen_pfokKeypairGen(fc_ctx* c)
{
	pfok_load(c);
	c->a[0] = fc_out(c, c->n[11]), c->a[1] = fc_out(c, c->n[10]);
	fc_mark_sec(c, c->a[0], c->n[11]);
}
static err_t call_pfokKeypairGen(fc_ctx* c) { return pfokKeypairGen(c->a[0], c->a[1], c->a[10], FC_RNG(c), c); }
static int bad_pfokKeypairGen(fc_ctx* c, int j, err_t* exp) { return pfok_bad_params(c, j, exp); }
static void gen_pfokPubkeyCalc(fc_ctx* c)
{
	pfok_load(c);
	pfok_pair(c, 11, 12);
	fc_mark_sec(c, c->a[11], c->n[11]);
	c->a[0] = fc_out(c, c->n[10]);
}
static err_t call_pfokPubkeyCalc(fc_ctx* c) { return pfokPubkeyCalc(c->a[0], c->a[10], c->a[11]); }
static void gen_pfokPubkeyVal(fc_ctx* c) { pfok_load(c); pfok_pair(c, 11, 12); }
static err_t call_pfokPubkeyVal(fc_ctx* c) { return pfokPubkeyVal(c->a[10], c->a[12]); }
static int bad_pfokPubkeyVal(fc_ctx* c, int j, err_t* exp)
{
	if (j < 4)
		return pfok_bad_params(c, j, exp);
	j -= 4;
	exp[0] = ERR_BAD_PUBKEY;
	switch (j)
	{
	case 0: memset(c->a[12], 0, c->n[10]); return 1;
	case 1: memset(c->a[12], 0xFF, c->n[10]); return 1;   /* >= p */
	}
	return 0;
}
static void gen_pfokDH(fc_ctx* c)
{
	pfok_load(c);
	pfok_pair(c, 11, 13);
	pfok_pair(c, 14, 12);
	fc_mark_sec(c, c->a[11], c->n[11]);
	c->a[0] = fc_out(c, c->n[12]);
	fc_mark_sec(c, c->a[0], c->n[12]);
}
static err_t call_pfokDH(fc_ctx* c) { return pfokDH(c->a[0], c->a[10], c->a[11], c->a[12]); }
static int bad_pfokDH(fc_ctx* c, int j, err_t* exp)
{
	if (j < 4)
		return pfok_bad_params(c, j, exp);
	j -= 4;
	switch (j)
	{
	case 0: memset(c->a[12], 0, c->n[10]); exp[0] = ERR_BAD_PUBKEY; return 1;
	case 1: memset(c->a[12], 0xFF, c->n[10]); exp[0] = ERR_BAD_PUBKEY; return 1;
	}
	return 0;
}
static void gen_pfokMTI(fc_ctx* c)
{
	pfok_load(c);
	pfok_pair(c, 11, 13);   /* my long-term */
	pfok_pair(c, 15, 16);   /* my one-time */
	pfok_pair(c, 14, 12);   /* peer long-term (public part in 12) */
	pfok_pair(c, 17, 18);   /* peer one-time (public part in 18) */
	fc_mark_sec(c, c->a[11], c->n[11]), fc_mark_sec(c, c->a[15], c->n[11]);
	c->a[0] = fc_out(c, c->n[12]);
	fc_mark_sec(c, c->a[0], c->n[12]);
}
static err_t call_pfokMTI(fc_ctx* c) { return pfokMTI(c->a[0], c->a[10], c->a[11], c->a[15], c->a[12], c->a[18]); }

#define D(NAME, GEN, CALL, BAD, FLAGS) { NAME, GEN, CALL, BAD, FLAGS }
const fc_desc fc_other[] = {
	D("g12sKeypairGen", gen_g12sKeypairGen, call_g12sKeypairGen, bad_g12sKeypairGen, FC_SECRET | FC_RNGARG),
	D("g12sSign", gen_g12sSign, call_g12sSign, bad_g12sSign, FC_SECRET | FC_RNGARG),
	D("g12sVerify", gen_g12sVerify, call_g12sVerify, bad_g12sVerify, 0),
	D("g12sParamsVal", gen_g12sParamsVal, call_g12sParamsVal, g12s_bad_params, FC_SLOW),
	D("dstuPointGen", gen_dstuPointGen, call_dstuPointGen, bad_dstu_gen, FC_RNGARG),
	D("dstuKeypairGen", gen_dstuKeypairGen, call_dstuKeypairGen, bad_dstu_gen, FC_SECRET | FC_RNGARG),
	D("dstuPointVal", gen_dstuPointVal, call_dstuPointVal, bad_dstuPointVal, 0),
	D("dstuPointCompress", gen_dstuCompress, call_dstuCompress, dstu_bad_params, 0),
	D("dstuPointRecover", gen_dstuRecover, call_dstuRecover, dstu_bad_params, 0),
	D("dstuSign", gen_dstuSign, call_dstuSign, bad_dstuSign, FC_SECRET | FC_RNGARG),
	D("dstuVerify", gen_dstuVerify, call_dstuVerify, bad_dstuVerify, 0),
	D("pfokKeypairGen", gen_pfokKeypairGen, call_pfokKeypairGen, bad_pfokKeypairGen, FC_SECRET | FC_SLOW | FC_RNGARG),
	D("pfokPubkeyCalc", gen_pfokPubkeyCalc, call_pfokPubkeyCalc, bad_pfokKeypairGen, FC_SECRET | FC_SLOW),
	D("pfokPubkeyVal", gen_pfokPubkeyVal, call_pfokPubkeyVal, bad_pfokPubkeyVal, FC_SLOW),
	D("pfokDH", gen_pfokDH, call_pfokDH, bad_pfokDH, FC_SECRET | FC_SLOW),
	D("pfokMTI", gen_pfokMTI, call_pfokMTI, bad_pfokDH, FC_SECRET | FC_SLOW),
};
const unsigned fc_other_n = sizeof(fc_other) / sizeof(fc_other[0]);
