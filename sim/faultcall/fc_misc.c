/* Descriptors: bash hash, brng, botp, bels. */
#include "fc.h"
#include <stdio.h>
#include "bee2/core/tm.h"
#include "bee2/crypto/bash.h"
#include "bee2/crypto/brng.h"
#include "bee2/crypto/botp.h"
#include "bee2/crypto/bels.h"

static const size_t KL[3] = { 16, 24, 32 };
static const size_t BADKL[] = { 0, 1, 15, 17, 23, 25, 31, 33, 64 };

/* ------------------------------------------------------------- bashHash */
/* a0 hash[l/4], n0 l, a1 src, n1 */
static void gen_bashHash(fc_ctx* c)
{
	static const size_t ln[] = { 0, 1, 31, 32, 95, 96, 97, 127, 128, 129, 143, 144, 145, 160, 191, 192, 193, 300 };
	c->n[0] = 16 * (1 + fc_below(c, 16));
	c->n[1] = FC_PICK(c, ln);
	c->a[1] = fc_pub(c, c->n[1]);
	c->a[0] = fc_out(c, c->n[0] / 4);
	c->variant = (int)(c->n[0] * 1000 + c->n[1]);
}
static err_t call_bashHash(fc_ctx* c) { return bashHash(c->a[0], c->n[0], c->a[1], c->n[1]); }
static int bad_bashHash(fc_ctx* c, int j, err_t* exp)
{
	static const size_t bl[] = { 0, 1, 8, 15, 17, 24, 100, 255, 257, 272, 512, (size_t)-1 };
	if (j >= (int)(sizeof(bl) / sizeof(bl[0])))
		return 0;
	c->n[0] = bl[j];
	/* the output buffer is sized for the largest legal digest so that the
	   bad level is the only thing wrong with the call */
	c->nouts = 0;
	c->a[0] = fc_out(c, 64);
	exp[0] = ERR_BAD_PARAMS;
	return 1;
}

/* ----------------------------------------------------------------- brng */
/* CTR: a0 buf,n0 (in/out, zero-filled), a1 key[32], a2 iv[32] (in/out) */
static void gen_brngCTR(fc_ctx* c)
{
	static const size_t ln[] = { 0, 1, 31, 32, 33, 63, 64, 65, 100 };
	c->n[0] = FC_PICK(c, ln);
	c->a[1] = fc_sec(c, 32);
	c->a[2] = fc_out(c, 32);
	sk_bytes(&c->rng, c->a[2], 32);
	c->a[0] = fc_out(c, c->n[0]);
	memset(c->a[0], 0, c->n[0]);
	c->variant = (int)c->n[0];
}
static err_t call_brngCTR(fc_ctx* c) { return brngCTRRand(c->a[0], c->n[0], c->a[1], c->a[2]); }

/* HMAC: a0 buf,n0, a1 key,n1, a2 iv,n2 */
static void gen_brngHMAC(fc_ctx* c)
{
	static const size_t ln[] = { 0, 1, 31, 32, 33, 64, 65, 100 };
	static const size_t il[] = { 0, 1, 32, 63, 64, 65, 100 };
	c->n[0] = FC_PICK(c, ln);
	c->n[1] = FC_PICK(c, ln);
	c->n[2] = FC_PICK(c, il);
	c->a[1] = fc_sec(c, c->n[1]);
	c->a[2] = fc_pub(c, c->n[2]);
	c->a[0] = fc_out(c, c->n[0]);
	c->variant = (int)(c->n[0] * 1000 + c->n[2]);
}
static err_t call_brngHMAC(fc_ctx* c) { return brngHMACRand(c->a[0], c->n[0], c->a[1], c->n[1], c->a[2], c->n[2]); }
static int bad_brngHMAC(fc_ctx* c, int j, err_t* exp)
{
	if (j == 0)
	{
		/* buf and iv overlap */
		octet* b = fc_out(c, 64);
		c->nouts = 0;
		c->a[0] = b, c->n[0] = 40;
		c->a[2] = b + 32, c->n[2] = 32;
		exp[0] = ERR_BAD_INPUT;
		return 1;
	}
	return 0;
}

/* ----------------------------------------------------------------- botp */
/* HOTP: a0 otp[digit+1], n0 digit, a1 key,n1, a2 ctr[8] */
static void gen_HOTPRand(fc_ctx* c)
{
	c->n[0] = 6 + fc_below(c, 3);
	c->n[1] = 1 + fc_below(c, 64);
	c->a[1] = fc_sec(c, c->n[1]);
	c->a[2] = fc_pub(c, 8);
	c->a[0] = fc_out(c, c->n[0] + 1);
	c->variant = (int)c->n[0];
}
static err_t call_HOTPRand(fc_ctx* c) { return botpHOTPRand(c->a[0], c->n[0], c->a[1], c->n[1], c->a[2]); }
static int bad_digit(fc_ctx* c, int j, err_t* exp)
{
	static const size_t bd[] = { 0, 1, 3, 4, 5, 9, 10, 11, 100 };
	if (j >= 9)
		return 0;
	c->n[0] = bd[j];
	c->nouts = 0;
	c->a[0] = fc_out(c, 16 > bd[j] + 1 ? 16 : bd[j] + 1);
	exp[0] = ERR_BAD_PARAMS;
	return 1;
}

/* HOTPVerify: a0 otp string, a1 key,n1, a2 ctr */
static void gen_HOTPVerify(fc_ctx* c)
{
	char* otp;
	void* st;
	c->n[0] = 6 + fc_below(c, 3);
	c->n[1] = 1 + fc_below(c, 64);
	c->a[1] = fc_sec(c, c->n[1]);
	c->a[2] = fc_pub(c, 8);
	otp = (char*)fc_raw(c, c->n[0] + 1);
	st = sk_alloc(botpHOTP_keep());
	botpHOTPStart(st, c->n[0], c->a[1], c->n[1]);
	botpHOTPStepS(st, c->a[2]);
	botpHOTPStepR(otp, st);
	sk_free(st);
	c->a[0] = otp;
	fc_mark_pub(c, otp, c->n[0] + 1);
	c->variant = (int)c->n[0];
}
static err_t call_HOTPVerify(fc_ctx* c) { return botpHOTPVerify(c->a[0], c->a[1], c->n[1], c->a[2]); }
static int bad_otp(fc_ctx* c, int j, err_t* exp)
{
	char* otp = (char*)c->a[0];
	size_t d = c->n[0];
	exp[0] = ERR_BAD_PWD;
	switch (j)
	{
	case 0: /* wrong digit(s) */
		if (strlen(otp) != d)
			return 0; /* already replaced by another variant */
		otp[0] = (char)('0' + (otp[0] - '0' + 1 + fc_below(c, 9)) % 10);
		if (fc_below(c, 2))
		{
			size_t k = 1 + fc_below(c, (uint32_t)(d - 1));
			otp[k] = (char)('0' + (otp[k] - '0' + 1 + fc_below(c, 9)) % 10);
		}
		return 1;
	case 1: /* too short */
	{
		char* s = (char*)fc_raw(c, 6);
		memcpy(s, "12345", 6);
		c->a[0] = s;
		return 1;
	}
	case 2: /* too long */
	{
		char* s = (char*)fc_raw(c, 10);
		memcpy(s, "123456789", 10);
		c->a[0] = s;
		return 1;
	}
	case 3: /* empty */
	{
		char* s = (char*)fc_raw(c, 1);
		c->a[0] = s;
		return 1;
	}
	}
	return 0;
}

/* TOTP: a0 otp, n0 digit, a1 key,n1, n2 t */
static void gen_TOTPRand(fc_ctx* c)
{
	gen_HOTPRand(c);
	c->n[2] = fc_below(c, 2000000000u);
}
static err_t call_TOTPRand(fc_ctx* c) { return botpTOTPRand(c->a[0], c->n[0], c->a[1], c->n[1], (tm_time_t)c->n[2]); }
static int bad_TOTPRand(fc_ctx* c, int j, err_t* exp)
{
	if (j < 9)
		return bad_digit(c, j, exp);
	if (j == 9)
	{
		c->n[2] = (size_t)TIME_ERR;
		exp[0] = ERR_BAD_TIME;
		return 1;
	}
	return 0;
}
static void gen_TOTPVerify(fc_ctx* c)
{
	char* otp;
	void* st;
	c->n[0] = 6 + fc_below(c, 3);
	c->n[1] = 1 + fc_below(c, 64);
	c->n[2] = fc_below(c, 2000000000u);
	c->a[1] = fc_sec(c, c->n[1]);
	otp = (char*)fc_raw(c, c->n[0] + 1);
	st = sk_alloc(botpTOTP_keep());
	botpTOTPStart(st, c->n[0], c->a[1], c->n[1]);
	botpTOTPStepR(otp, (tm_time_t)c->n[2], st);
	sk_free(st);
	c->a[0] = otp;
	fc_mark_pub(c, otp, c->n[0] + 1);
	c->variant = (int)c->n[0];
}
static err_t call_TOTPVerify(fc_ctx* c) { return botpTOTPVerify(c->a[0], c->a[1], c->n[1], (tm_time_t)c->n[2]); }
static int bad_TOTPVerify(fc_ctx* c, int j, err_t* exp)
{
	if (j < 4)
		return bad_otp(c, j, exp);
	if (j == 4)
	{
		c->n[2] = (size_t)TIME_ERR;
		exp[0] = ERR_BAD_TIME;
		exp[1] = ERR_BAD_PWD;
		return 2;
	}
	return 0;
}

/* OCRA: a0 otp, a3 suite, a1 key,n1, a4 q,n4, a2 ctr, a5 p, a6 s, n2 t */
static const char* SUITES[] = {
	"OCRA-1:HOTP-HBELT-8:C-QN08-PHBELT-S064-T1M",
	"OCRA-1:HOTP-HBELT-6:QN08",
	"OCRA-1:HOTP-HBELT-7:QA10-T30S",
	"OCRA-1:HOTP-HBELT-9:C-QH40-PSHA1",
	"OCRA-1:HOTP-HBELT-4:QA64-S128",
	"OCRA-1:HOTP-HBELT-8:C-QN04-PSHA512-S512-T48H",
};
static const size_t SUITE_QMAX[] = { 8, 8, 10, 40, 64, 4 };
static const size_t SUITE_DIGIT[] = { 8, 6, 7, 9, 4, 8 };

static void gen_ocra_common(fc_ctx* c)
{
	unsigned si = fc_below(c, 6);
	size_t qmax = SUITE_QMAX[si], sl = strlen(SUITES[si]) + 1;
	char* su = (char*)fc_raw(c, sl);
	octet* q;
	size_t i;
	memcpy(su, SUITES[si], sl);
	c->a[3] = su;
	c->n[3] = si;
	c->n[1] = 1 + fc_below(c, 64);
	c->a[1] = fc_sec(c, c->n[1]);
	c->n[4] = 4 + fc_below(c, (uint32_t)(2 * qmax - 3));
	q = fc_pub(c, c->n[4]);
	for (i = 0; i < c->n[4]; ++i)
		q[i] = (octet)('0' + q[i] % 10);
	c->a[4] = q;
	c->a[2] = fc_pub(c, 8);
	c->a[5] = fc_sec(c, 64);
	c->a[6] = fc_pub(c, 512);
	c->n[2] = fc_below(c, 2000000000u);
	c->n[0] = SUITE_DIGIT[si];
	c->variant = (int)si;
}
static void gen_OCRARand(fc_ctx* c)
{
	gen_ocra_common(c);
	c->a[0] = fc_out(c, c->n[0] + 1);
}
static err_t call_OCRARand(fc_ctx* c)
{
	return botpOCRARand(c->a[0], c->a[3], c->a[1], c->n[1], c->a[4], c->n[4], c->a[2], c->a[5], c->a[6], (tm_time_t)c->n[2]);
}
static int bad_ocra_common(fc_ctx* c, int j, err_t* exp)
{
	static const char* BADS[] = {
		"OCRA-1:HOTP-HBELT-3:C-QN08", "OCRA-1:HOTP-HBELT-6-QN08", "OCRA-1:HOTP-HBELT-8:C-QA65",
		"OCRA-1:HOTP-HBELT-8:C-QN08-", "OCRA-1:HOTP-HBELT-8:C-QN08-PSHA", "OCRA-1:HOTP-HBELT-8:QN08-SA13",
		"OCRA-1:HOTP-HBELT-8:QN08-T1N", "OCRA-1:HOTP-HBELT-8:QN08-T61S", "OCRA-1:HOTP-HBELT-8:QN08-T51H",
		"", "OCRA-2:HOTP-HBELT-8:QN08", "OCRA-1:HOTP-HBELT-8:QN03",
	};
	if (j < 12)
	{
		size_t sl = strlen(BADS[j]) + 1;
		char* su = (char*)fc_raw(c, sl);
		memcpy(su, BADS[j], sl);
		c->a[3] = su;
		exp[0] = ERR_BAD_FORMAT;
		return 1;
	}
	j -= 12;
	if (j < 4)
	{
		static const size_t off[] = { 0, 1, 3 };
		size_t qmax = SUITE_QMAX[c->n[3]];
		c->n[4] = j < 3 ? off[j] : 2 * qmax + 1;
		c->a[4] = fc_pub(c, c->n[4]);
		exp[0] = ERR_BAD_PARAMS;
		return 1;
	}
	j -= 4;
	if (j == 0 && strstr((const char*)c->a[3], "-T"))
	{
		c->n[2] = (size_t)TIME_ERR;
		exp[0] = ERR_BAD_TIME;
		return 1;
	}
	return 0;
}
static void gen_OCRAVerify(fc_ctx* c)
{
	char* otp;
	void* st;
	gen_ocra_common(c);
	otp = (char*)fc_raw(c, c->n[0] + 1);
	st = sk_alloc(botpOCRA_keep());
	if (botpOCRAStart(st, c->a[3], c->a[1], c->n[1]))
	{
		botpOCRAStepS(st, c->a[2], c->a[5], c->a[6]);
		botpOCRAStepR(otp, c->a[4], c->n[4], (tm_time_t)c->n[2], st);
	}
	sk_free(st);
	c->a[0] = otp;
	fc_mark_pub(c, otp, c->n[0] + 1);
}
static err_t call_OCRAVerify(fc_ctx* c)
{
	return botpOCRAVerify(c->a[0], c->a[3], c->a[1], c->n[1], c->a[4], c->n[4], c->a[2], c->a[5], c->a[6], (tm_time_t)c->n[2]);
}
static int bad_OCRAVerify(fc_ctx* c, int j, err_t* exp)
{
	if (j < 17)
	{
		int n = bad_ocra_common(c, j, exp);
		if (n)
		{
			/* the password no longer matches either; the header does not fix precedence */
			exp[n] = ERR_BAD_PWD;
			return n + 1;
		}
		if (j < 16)
			return 0;
	}
	if (j == 17)
	{
		char* otp = (char*)c->a[0];
		otp[0] = (char)('0' + (otp[0] - '0' + 1) % 10);
		exp[0] = ERR_BAD_PWD;
		return 1;
	}
	if (j == 16)
	{
		/* keep indices dense when the suite has no time */
		char* otp = (char*)c->a[0];
		otp[c->n[0] - 1] = (char)('0' + (otp[c->n[0] - 1] - '0' + 3) % 10);
		exp[0] = ERR_BAD_PWD;
		return 1;
	}
	if (j == 18)
	{
		/* a password of the wrong length */
		((char*)c->a[0])[c->n[0] - 1] = 0;
		exp[0] = ERR_BAD_PWD;
		return 1;
	}
	return 0;
}

/* ----------------------------------------------------------------- bels */
/* StdM: a0 m[len], n0 len, n1 num */
static void gen_belsStdM(fc_ctx* c)
{
	c->n[0] = FC_PICK(c, KL);
	c->n[1] = fc_below(c, 17);
	c->a[0] = fc_out(c, c->n[0]);
	c->variant = (int)(c->n[0] * 100 + c->n[1]);
}
static err_t call_belsStdM(fc_ctx* c) { return belsStdM(c->a[0], c->n[0], c->n[1]); }
static int bad_belsStdM(fc_ctx* c, int j, err_t* exp)
{
	exp[0] = ERR_BAD_INPUT;
	if (j < 9)
	{
		c->n[0] = BADKL[j];
		c->nouts = 0, c->a[0] = fc_out(c, 64);
		return 1;
	}
	j -= 9;
	if (j < 4)
	{
		static const size_t bn[] = { 17, 18, 255, (size_t)-1 };
		c->n[1] = bn[j];
		return 1;
	}
	return 0;
}

/* ValM: a0 m[len], n0 len */
static void gen_belsValM(fc_ctx* c)
{
	c->n[0] = FC_PICK(c, KL);
	c->a[0] = fc_raw(c, c->n[0]);
	belsStdM(c->a[0], c->n[0], fc_below(c, 17));
	c->variant = (int)c->n[0];
}
static err_t call_belsValM(fc_ctx* c) { return belsValM(c->a[0], c->n[0]); }
static int bad_belsValM(fc_ctx* c, int j, err_t* exp)
{
	if (j < 9)
	{
		c->n[0] = BADKL[j];
		c->a[0] = fc_pub(c, BADKL[j]);
		exp[0] = ERR_BAD_INPUT;
		return 1;
	}
	if (j == 9 && c->n[0] >= 16)
	{
		/* x^l + (even low part) is divisible by x: reducible */
		memset(c->a[0], 0, c->n[0]);
		((octet*)c->a[0])[1] = 2;
		exp[0] = ERR_BAD_PUBKEY;
		return 1;
	}
	return 0;
}

/* GenM0: a0 m0[len], n0 len, ang = tape */
static void gen_belsGenM0(fc_ctx* c)
{
	c->n[0] = FC_PICK(c, KL);
	c->a[0] = fc_out(c, c->n[0]);
	c->variant = (int)c->n[0];
}
static err_t call_belsGenM0(fc_ctx* c) { return belsGenM0(c->a[0], c->n[0], FC_RNG(c), c); }
static int bad_belsGenM0(fc_ctx* c, int j, err_t* exp)
{
	if (j < 9)
	{
		c->n[0] = BADKL[j];
		c->nouts = 0, c->a[0] = fc_out(c, 64);
		exp[0] = ERR_BAD_INPUT;
		return 1;
	}
	if (j == 9)
	{
		c->tape_mode = 1; /* generator repeats itself: all zero */
		exp[0] = ERR_BAD_ANG, exp[1] = FC_ANYERR; /* dead generator: a fault, not a listed argument */
		return 2;
	}
	return 0;
}

/* GenMi: a0 mi, n0 len, a1 m0 */
static void gen_belsGenMi(fc_ctx* c)
{
	c->n[0] = FC_PICK(c, KL);
	c->a[1] = fc_raw(c, c->n[0]);
	belsStdM(c->a[1], c->n[0], 0);
	c->a[0] = fc_out(c, c->n[0]);
	c->variant = (int)c->n[0];
}
static err_t call_belsGenMi(fc_ctx* c) { return belsGenMi(c->a[0], c->n[0], c->a[1], FC_RNG(c), c); }
static int bad_belsGenMi(fc_ctx* c, int j, err_t* exp)
{
	if (j < 9)
	{
		c->n[0] = BADKL[j];
		c->nouts = 0, c->a[0] = fc_out(c, 64);
		c->a[1] = fc_pub(c, 64);
		exp[0] = ERR_BAD_INPUT;
		return 1;
	}
	if (j == 9)
	{
		memset(c->a[1], 0, c->n[0]); /* m0 = x^l: reducible */
		return FC_SOFT(exp);
	}
	if (j == 10)
	{
		c->tape_mode = 1;
		exp[0] = ERR_BAD_ANG, exp[1] = FC_ANYERR; /* dead generator: a fault, not a listed argument */
		return 2;
	}
	return 0;
}

/* GenMid: a0 mid, n0 len, a1 m0, a2 id,n2 */
static void gen_belsGenMid(fc_ctx* c)
{
	c->n[0] = FC_PICK(c, KL);
	c->a[1] = fc_raw(c, c->n[0]);
	belsStdM(c->a[1], c->n[0], 0);
	c->n[2] = fc_below(c, 70);
	c->a[2] = fc_pub(c, c->n[2]);
	c->a[0] = fc_out(c, c->n[0]);
	c->variant = (int)c->n[0];
}
static err_t call_belsGenMid(fc_ctx* c) { return belsGenMid(c->a[0], c->n[0], c->a[1], c->a[2], c->n[2]); }
static int bad_belsGenMid(fc_ctx* c, int j, err_t* exp)
{
	if (j < 9)
	{
		c->n[0] = BADKL[j];
		c->nouts = 0, c->a[0] = fc_out(c, 64);
		c->a[1] = fc_pub(c, 64);
		exp[0] = ERR_BAD_INPUT;
		return 1;
	}
	if (j == 9)
	{
		memset(c->a[1], 0, c->n[0]);
		return FC_SOFT(exp);
	}
	return 0;
}

/* Share: a0 si[count*len], n1 count, n2 threshold, n0 len, a1 s, a2 m0, a3 mi[count*len] */
static void gen_share_common(fc_ctx* c, int std)
{
	size_t i;
	c->n[0] = FC_PICK(c, KL);
	c->n[1] = 1 + fc_below(c, std ? 16 : 10);
	c->n[2] = 1 + fc_below(c, (uint32_t)c->n[1]);
	c->a[1] = fc_sec(c, c->n[0]);
	if (!std)
	{
		c->a[2] = fc_raw(c, c->n[0]);
		belsStdM(c->a[2], c->n[0], 0);
		c->a[3] = fc_raw(c, c->n[1] * c->n[0]);
		for (i = 0; i < c->n[1]; ++i)
			belsStdM((octet*)c->a[3] + i * c->n[0], c->n[0], i + 1);
		c->a[0] = fc_out(c, c->n[1] * c->n[0]);
	}
	else
		c->a[0] = fc_out(c, c->n[1] * (c->n[0] + 1));
	c->variant = (int)(c->n[0] * 10000 + c->n[1] * 100 + c->n[2]);
}
static void gen_belsShare(fc_ctx* c) { gen_share_common(c, 0); }
static void gen_belsShare2(fc_ctx* c) { gen_share_common(c, 1); }
static err_t call_belsShare(fc_ctx* c) { return belsShare(c->a[0], c->n[1], c->n[2], c->n[0], c->a[1], c->a[2], c->a[3], FC_RNG(c), c); }
static err_t call_belsShare2(fc_ctx* c) { return belsShare2(c->a[0], c->n[1], c->n[2], c->n[0], c->a[1], FC_RNG(c), c); }
static err_t call_belsShare3(fc_ctx* c) { return belsShare3(c->a[0], c->n[1], c->n[2], c->n[0], c->a[1]); }
static int bad_share(fc_ctx* c, int j, err_t* exp, int std)
{
	exp[0] = ERR_BAD_INPUT;
	if (j < 9)
	{
		size_t big = c->n[1] * 65;
		c->n[0] = BADKL[j];
		c->a[1] = fc_sec(c, 64);
		c->nouts = 0, c->a[0] = fc_out(c, big);
		if (!std)
			c->a[2] = fc_pub(c, 64), c->a[3] = fc_pub(c, big);
		return 1;
	}
	j -= 9;
	switch (j)
	{
	case 0: c->n[2] = 0; return 1;
	case 1: c->n[2] = c->n[1] + 1; return 1;
	case 2: c->n[2] = (size_t)-1; return 1;
	case 3:
		if (std)
		{
			/* count beyond the 16 standard keys */
			c->n[1] = 17, c->n[2] = 2;
			c->nouts = 0, c->a[0] = fc_out(c, 17 * (c->n[0] + 1));
			return 1;
		}
		/* user key equal to the common key: a hard-to-check \\expect (EXPECT in the code) */
		memcpy(c->a[3], c->a[2], c->n[0]);
		return FC_SOFT(exp);
	case 4:
		if (std)
		{
			c->n[1] = 0, c->n[2] = 0;
			return 1;
		}
		if (c->n[1] < 2)
			return 0;
		/* two equal user keys */
		memcpy((octet*)c->a[3] + c->n[0], c->a[3], c->n[0]);
		return FC_SOFT(exp);
	}
	return 0;
}
static int bad_belsShare(fc_ctx* c, int j, err_t* exp) { return bad_share(c, j, exp, 0); }
static int bad_belsShare2(fc_ctx* c, int j, err_t* exp) { return bad_share(c, j, exp, 1); }

/* Recover: a0 s[len], n1 count, n0 len, a1 si, a2 m0, a3 mi */
static void gen_recover_common(fc_ctx* c, int std)
{
	size_t i, thr;
	octet* s;
	c->n[0] = FC_PICK(c, KL);
	c->n[1] = 1 + fc_below(c, std ? 16 : 8);
	thr = 1 + fc_below(c, (uint32_t)c->n[1]);
	s = fc_sec(c, c->n[0]);
	if (!std)
	{
		c->a[2] = fc_raw(c, c->n[0]);
		belsStdM(c->a[2], c->n[0], 0);
		c->a[3] = fc_raw(c, c->n[1] * c->n[0]);
		for (i = 0; i < c->n[1]; ++i)
			belsStdM((octet*)c->a[3] + i * c->n[0], c->n[0], i + 1);
		c->a[1] = fc_raw(c, c->n[1] * c->n[0]);
		belsShare(c->a[1], c->n[1], thr, c->n[0], s, c->a[2], c->a[3], fc_tape, c);
		fc_mark_sec(c, c->a[1], c->n[1] * c->n[0]);
	}
	else
	{
		c->a[1] = fc_raw(c, c->n[1] * (c->n[0] + 1));
		belsShare2(c->a[1], c->n[1], thr, c->n[0], s, fc_tape, c);
		fc_mark_sec(c, c->a[1], c->n[1] * (c->n[0] + 1));
	}
	c->a[0] = fc_out(c, c->n[0]);
	c->variant = (int)(c->n[0] * 100 + c->n[1]);
}
static void gen_belsRecover(fc_ctx* c) { gen_recover_common(c, 0); }
static void gen_belsRecover2(fc_ctx* c) { gen_recover_common(c, 1); }
static err_t call_belsRecover(fc_ctx* c) { return belsRecover(c->a[0], c->n[1], c->n[0], c->a[1], c->a[2], c->a[3]); }
static err_t call_belsRecover2(fc_ctx* c) { return belsRecover2(c->a[0], c->n[1], c->n[0], c->a[1]); }
static int bad_belsRecover(fc_ctx* c, int j, err_t* exp)
{
	if (j < 9)
	{
		size_t big = c->n[1] * 65;
		c->n[0] = BADKL[j];
		c->a[1] = fc_sec(c, big), c->a[2] = fc_pub(c, 64), c->a[3] = fc_pub(c, big);
		c->nouts = 0, c->a[0] = fc_out(c, 64);
		exp[0] = ERR_BAD_INPUT;
		return 1;
	}
	j -= 9;
	switch (j)
	{
	case 0:
		/* count == 0 */
		c->n[1] = 0; exp[0] = ERR_BAD_INPUT; return 1;
	case 1:
		/* two equal user keys: bels.h names ERR_BAD_PUBKEY (the recovery needs coprime keys) */
		if (c->n[1] < 2)
			return FC_SOFT(exp);
		memcpy((octet*)c->a[3] + c->n[0], c->a[3], c->n[0]);
		exp[0] = ERR_BAD_PUBKEY;
		return 1;
	case 2:
		/* two user keys with a common factor: x^l and x^l + x (gcd = x) */
		if (c->n[1] < 2)
			return FC_SOFT(exp);
		memset((octet*)c->a[3], 0, c->n[0]);                    /* m1(x) = x^l */
		memset((octet*)c->a[3] + c->n[0], 0, c->n[0]);
		((octet*)c->a[3])[c->n[0]] = 2;                          /* m2(x) = x^l + x: gcd = x */
		exp[0] = ERR_BAD_PUBKEY;
		return 1;
	}
	return 0;
}
static int bad_belsRecover2(fc_ctx* c, int j, err_t* exp)
{
	if (j < 9)
	{
		c->n[0] = BADKL[j];
		c->a[1] = fc_pub(c, c->n[1] * 65);
		c->nouts = 0, c->a[0] = fc_out(c, 64);
		exp[0] = ERR_BAD_INPUT;
		exp[1] = ERR_BAD_PUBKEY;
		return 2;
	}
	j -= 9;
	exp[0] = ERR_BAD_PUBKEY;
	switch (j)
	{
	case 0: ((octet*)c->a[1])[0] = 0; return 1;
	case 1: ((octet*)c->a[1])[0] = 17; return 1;
	case 2: ((octet*)c->a[1])[0] = 255; return 1;
	case 3:
		if (c->n[1] < 2)
			return 0;
		((octet*)c->a[1])[c->n[0] + 1] = ((octet*)c->a[1])[0];
		return 1;
	}
	return 0;
}

#define D(NAME, GEN, CALL, BAD, FLAGS) { NAME, GEN, CALL, BAD, FLAGS }
const fc_desc fc_misc[] = {
	D("bashHash", gen_bashHash, call_bashHash, bad_bashHash, 0),
	D("brngCTRRand", gen_brngCTR, call_brngCTR, 0, FC_SECRET),
	D("brngHMACRand", gen_brngHMAC, call_brngHMAC, bad_brngHMAC, FC_SECRET),
	D("botpHOTPRand", gen_HOTPRand, call_HOTPRand, bad_digit, FC_SECRET),
	D("botpHOTPVerify", gen_HOTPVerify, call_HOTPVerify, bad_otp, FC_SECRET),
	D("botpTOTPRand", gen_TOTPRand, call_TOTPRand, bad_TOTPRand, FC_SECRET),
	D("botpTOTPVerify", gen_TOTPVerify, call_TOTPVerify, bad_TOTPVerify, FC_SECRET),
	D("botpOCRARand", gen_OCRARand, call_OCRARand, bad_ocra_common, FC_SECRET),
	D("botpOCRAVerify", gen_OCRAVerify, call_OCRAVerify, bad_OCRAVerify, FC_SECRET),
	D("belsStdM", gen_belsStdM, call_belsStdM, bad_belsStdM, 0),
	D("belsValM", gen_belsValM, call_belsValM, bad_belsValM, 0),
	D("belsGenM0", gen_belsGenM0, call_belsGenM0, bad_belsGenM0, FC_SLOW | FC_RNGARG),
	D("belsGenMi", gen_belsGenMi, call_belsGenMi, bad_belsGenMi, FC_SLOW | FC_RNGARG),
	D("belsGenMid", gen_belsGenMid, call_belsGenMid, bad_belsGenMid, FC_SLOW),
	D("belsShare", gen_belsShare, call_belsShare, bad_belsShare, FC_SECRET | FC_RNGARG),
	D("belsShare2", gen_belsShare2, call_belsShare2, bad_belsShare2, FC_SECRET | FC_RNGARG),
	D("belsShare3", gen_belsShare2, call_belsShare3, bad_belsShare2, FC_SECRET),
	D("belsRecover", gen_belsRecover, call_belsRecover, bad_belsRecover, FC_SECRET),
	D("belsRecover2", gen_belsRecover2, call_belsRecover2, bad_belsRecover2, FC_SECRET),
};
const unsigned fc_misc_n = sizeof(fc_misc) / sizeof(fc_misc[0]);
