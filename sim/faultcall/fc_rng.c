/* Descriptor: one simulated process lifetime of the library's single generator -
   rngCreate (with or without the caller's extra source), requests with and without
   entropy refresh, re-keying, a nested create/close, rngClose (or a forgotten one),
   process exit (the captured atexit handlers).  The entropy sources are the
   simulator's (H-rng-es) and draw from the secret stream, so for C15 the generator
   state is "the secret": whatever block is released - by rngClose, or by rngDestroy
   at exit when the close was forgotten - must have been wiped. */
#include "fc.h"
#include "bee2/core/err.h"
#include "bee2/core/mem.h"
#include "bee2/core/rng.h"
#include "bee2/core/util.h"

extern err_t (*rngVerifESRead)(size_t* read, void* buf, size_t count, const char* source);
void rngVerifReset(void);
void utilVerifReset(void);
void fc_exit_capture(int on);
void fc_run_exit(void);

static fc_ctx* CUR;
static unsigned es_mask;   /* which of trng, trng2, sys, sys2, timer answer */
static err_t es_hook(size_t* read, void* buf, size_t count, const char* source)
{
	static const char* N[5] = { "trng", "trng2", "sys", "sys2", "timer" };
	unsigned i;
	for (i = 0; i < 5; ++i)
		if (!strcmp(source, N[i]))
			break;
	if (i == 5 || !(es_mask & (1u << i)))
		return ERR_FILE_NOT_FOUND;
	sk_bytes(&CUR->srng, buf, count);
	*read = count;
	return ERR_OK;
}
static err_t extra_source(size_t* read, void* buf, size_t count, void* state)
{
	fc_ctx* c = (fc_ctx*)state;
	sk_bytes(&c->srng, buf, count);
	*read = count;
	return ERR_OK;
}

/* n0: number of requests, n1: bit mask of sources, n2: extra source at create, n3: forget the close,
   n4: nested create/close, n5: rekey position (or > n0: none) */
static void gen_rng(fc_ctx* c)
{
	static const unsigned masks[] = { 0x05, 0x03, 0x1F, 0x11, 0x06, 0x01 };   /* the last gives 32 octets only */
	unsigned i;
	c->n[0] = 1 + fc_below(c, 4);
	c->n[1] = FC_PICK(c, masks);
	c->n[2] = fc_below(c, 2);
	c->n[3] = fc_below(c, 4) == 0;
	c->n[4] = fc_below(c, 2);
	c->n[5] = fc_below(c, 6);
	for (i = 0; i < c->n[0]; ++i)
	{
		c->n[8 + i] = 1 + fc_below(c, 100);
		c->a[8 + i] = fc_out(c, c->n[8 + i]);
	}
	c->variant = (int)(c->n[1] * 100 + c->n[0] * 10 + c->n[2] * 4 + c->n[3] * 2 + c->n[4]);
}
static err_t call_rng(fc_ctx* c)
{
	err_t code;
	unsigned i;
	int retry_bad = 0;
	CUR = c;
	es_mask = (unsigned)c->n[1];
	/* memWipe's pattern depends on a hidden call counter and rngRekey/rngCreate feed wiped
	   buffers back into the generator: start every lifetime from the same counter (§2) */
	sk_wipe_normalise();
	rngVerifReset(), utilVerifReset();
	rngVerifESRead = es_hook;
	fc_exit_capture(1);
	code = rngCreate(c->n[2] ? extra_source : 0, c);
	if (code != ERR_OK && !(c->n[1] == 0x01 && !c->n[2]))
	{
		/* a failed creation must leave the module as if it had not been tried: the caller tries
		   again (the injected fault may be gone by then) and, if that succeeds, gets a working
		   generator; if it fails again, the first error stands */
		err_t first = code;
		code = rngCreate(c->n[2] ? extra_source : 0, c);
		if (code == ERR_OK)
		{
			if (!rngIsValid())
				retry_bad = 1;
			else
			{
				octet probe[16];
				rngStepR2(probe, sizeof(probe), 0);
				rngClose();
				if (rngIsValid())
					retry_bad = 1;
			}
		}
		code = first;
	}
	if (code == ERR_OK)
	{
		for (i = 0; i < c->n[0]; ++i)
		{
			if (i == c->n[5])
				rngRekey();
			if (i & 1)
				rngStepR2(c->a[8 + i], c->n[8 + i], 0);
			else
				rngStepR(c->a[8 + i], c->n[8 + i], 0);
			if (i == 0 && c->n[4])
			{
				/* a second user of the same generator comes and goes */
				if (rngCreate(extra_source, c) != ERR_OK)
					code = ERR_BAD_LOGIC;
				else
					rngClose();
			}
		}
		if (!rngIsValid())
			code = ERR_BAD_LOGIC;
		if (!c->n[3])
		{
			rngClose();
			if (rngIsValid())
				code = ERR_BAD_LOGIC;
		}
	}
	else
	{
		/* a creation that failed hands out nothing */
		for (i = 0; i < c->n[0]; ++i)
			memset(c->a[8 + i], 0, c->n[8 + i]);
		if (c->n[1] == 0x01 && !c->n[2] && code == ERR_NOT_ENOUGH_ENTROPY)
			code = ERR_OK;   /* one 32-octet source is documented as too little */
	}
	if (retry_bad)
		c->damage = "rngCreate failed, the caller tried again, rngCreate returned ERR_OK - and there is no valid generator (or it survives its rngClose)";
	/* process exit */
	fc_run_exit();
	fc_exit_capture(0);
	rngVerifESRead = 0;
	rngVerifReset(), utilVerifReset();
	return code;
}

#define D(NAME, GEN, CALL, BAD, FLAGS) { NAME, GEN, CALL, BAD, FLAGS }
const fc_desc fc_rng[] = {
	D("rngLifetime", gen_rng, call_rng, 0, FC_SECRET),
};
const unsigned fc_rng_n = sizeof(fc_rng) / sizeof(fc_rng[0]);
