/* C17 (b): CV-certificate chains under a simulated calendar and storage faults;
   (c): password-protected key/share containers under storage corruption. */
#include "proto.h"
#include <stdio.h>
#include "bee2/core/tm.h"
#include "bee2/crypto/btok.h"
#include "bee2/crypto/bpki.h"
#include "bee2/core/rng.h"

/* the hidden global generator (btokCVCWrap/Iss call rngStepR when rngIsValid()):
   created on simulated entropy in a third of the runs */
extern err_t (*rngVerifESRead)(size_t* read, void* buf, size_t count, const char* source);
void rngVerifReset(void);
void utilVerifReset(void);
static sk_rng es_rng;
static err_t es_hook(size_t* read, void* buf, size_t count, const char* source)
{
	(void)source;
	sk_bytes(&es_rng, buf, count);
	*read = count;
	return ERR_OK;
}

static const size_t PL[4] = { 24, 32, 48, 64 };

typedef struct {
	btok_cvc_t cvc;
	octet priv[64];
	size_t privlen;
	octet cert[512];
	size_t certlen;
	unsigned from, until;
	int issued;
} actor_t;

static void set_name(char* dst, sk_rng* r, const char* pfx, size_t n)
{
	size_t i, pl = strlen(pfx);
	memset(dst, 0, 13);
	memcpy(dst, pfx, pl);
	for (i = pl; i < n && i < 12; ++i)
		dst[i] = (char)('0' + sk_below(r, 10));
	if (n > 12)
		memset(dst, 'A', 13); /* 13 characters, no terminator inside the field */
}


/* a certificate as the verifier holds it: a block of exactly its length (a parser that follows an
   altered length field out of the certificate leaves the block) */
static const octet* exact_copy(const octet* p, size_t n)
{
	octet* q = (octet*)sk_alloc(n ? n : 1);
	memcpy(q, p, n);
	return q;
}
#define EXACT2(CALL, P1, N1, P2, N2) do { const octet* e1_ = exact_copy(P1, N1); const octet* e2_ = exact_copy(P2, N2); \
	CALL; sk_free((void*)e1_), sk_free((void*)e2_); } while (0)

void run_cvc(uint64_t seed, const sk_mask* mask, sk_result* out)
{
	sk_rng r;
	tape_t tape;
	static actor_t A[4];
	unsigned depth, i, nval, v;
	size_t n;
	err_t code;
	int chain_ok = 1, with_rng, afail = 0;
	sk_rng fr;
	(void)mask;
	sk_rng_seed(&r, seed);
	sk_rng_seed(&fr, sk_mix(seed, 0xa110c));
	sk_heap_reset(sk_u64(&r));
	sk_rng_seed(&tape.r, sk_u64(&r)), tape.mode = 0, tape.calls = 0, tape.flip_call = 0;
	depth = 1 + sk_below(&r, 3);
	memset(A, 0, sizeof(A));
	out->nops = 0;
	with_rng = sk_chance(&r, 1, 3);
	rngVerifReset(), utilVerifReset();
	rngVerifESRead = es_hook;
	sk_rng_seed(&es_rng, sk_u64(&r));
	sk_heap_arm();
	if (with_rng)
	{
		if (rngCreate(0, 0) != ERR_OK)
			with_rng = 0;
		else
			sk_count("probe.cvc_global_rng_present", 1);
	}
	/* ---- root: self-signed */
	{
		actor_t* a = &A[0];
		a->privlen = PL[sk_below(&r, 4)];
		a->from = 365 * 10 + sk_below(&r, 4000), a->until = a->from + 1 + sk_below(&r, 6000);
		set_name(a->cvc.authority, &r, "BYCA", 8 + sk_below(&r, 5));
		memcpy(a->cvc.holder, a->cvc.authority, 13);
		b2_date(a->cvc.from, a->from), b2_date(a->cvc.until, a->until);
		if (sk_chance(&r, 1, 2))
			sk_bytes(&r, a->cvc.hat_eid, 5), sk_bytes(&r, a->cvc.hat_esign, 2);
			/* an all-zero access word is the documented "no rights" case, and its block may be left out
			   of the certificate: each word independently zero in a quarter of the certificates */
			if (sk_chance(&fr, 1, 4))
				memset(a->cvc.hat_eid, 0, 5);
			if (sk_chance(&fr, 1, 4))
				memset(a->cvc.hat_esign, 0, 2);
		b2_keypair(a->priv, a->cvc.pubkey, a->privlen, tape_gen, &tape);
		a->cvc.pubkey_len = 0;
		n = sizeof(a->cert);
		code = btokCVCWrap(0, &n, &a->cvc, a->priv, a->privlen);
		if (code == ERR_OK && n <= sizeof(a->cert))
			code = btokCVCWrap(a->cert, &a->certlen, &a->cvc, a->priv, a->privlen);
		sk_text(out, "root %s key=%u valid days %u..%u -> rc=%u len=%u", a->cvc.holder, (unsigned)a->privlen, a->from, a->until, (unsigned)code, (unsigned)a->certlen);
		if (code != ERR_OK)
		{
			sk_heap_disarm();
			sk_violate(out, "cvc_valid_content_refused", "btokCVCWrap refused a valid self-signed content with %u", (unsigned)code);
			return;
		}
		a->issued = 1;
	}
	/* ---- issue down the chain; some issuances are deliberately invalid */
	for (i = 1; i <= depth && chain_ok; ++i)
	{
		actor_t* a = &A[i];
		actor_t* ca = &A[i - 1];
		int viol = sk_chance(&r, 1, 3) ? (int)(1 + sk_below(&r, 10)) : 0;
		int expect_ok = 1;
		size_t namelen = 8 + sk_below(&r, 5);
		a->privlen = PL[sk_below(&r, 4)];
		a->from = ca->from + sk_below(&r, ca->until - ca->from + 1);
		a->until = a->from + sk_below(&r, 3000);
		if (sk_chance(&r, 1, 4))
			a->from = sk_chance(&r, 1, 2) ? ca->from : ca->until; /* boundaries of the issuer's window */
		if (a->until < a->from)
			a->until = a->from;
		switch (viol)
		{
		case 1: a->from = ca->until + 1 + sk_below(&r, 50), a->until = a->from + 10; expect_ok = 0; break; /* issuer expired at issue time */
		case 2: if (ca->from == 0) { viol = 0; break; } a->from = ca->from - 1, a->until = ca->from + 5; expect_ok = 0; break;
		case 3: namelen = 7; expect_ok = 0; break;
		case 4: namelen = 13; expect_ok = 0; break;
		}
		memcpy(a->cvc.authority, ca->cvc.holder, 13);
		set_name(a->cvc.holder, &r, i == depth ? "BYT" : "BYCA", namelen);
		b2_date(a->cvc.from, a->from), b2_date(a->cvc.until, a->until);
		if (sk_chance(&r, 1, 2))
			sk_bytes(&r, a->cvc.hat_eid, 5), sk_bytes(&r, a->cvc.hat_esign, 2);
			/* an all-zero access word is the documented "no rights" case, and its block may be left out
			   of the certificate: each word independently zero in a quarter of the certificates */
			if (sk_chance(&fr, 1, 4))
				memset(a->cvc.hat_eid, 0, 5);
			if (sk_chance(&fr, 1, 4))
				memset(a->cvc.hat_esign, 0, 2);
		b2_keypair(a->priv, a->cvc.pubkey, a->privlen, tape_gen, &tape);
		a->cvc.pubkey_len = 2 * a->privlen;
		switch (viol)
		{
		case 5: a->cvc.authority[4] ^= 1; expect_ok = 0; break;                 /* wrong issuer name */
		case 6: a->cvc.from[2] = 1, a->cvc.from[3] = 3; expect_ok = 0; break;    /* invalid calendar date: month 13 */
		case 7: b2_date(a->cvc.until, a->from ? a->from - 1 : 0); if (a->from) expect_ok = 0; break; /* from > until */
		case 8: a->cvc.until[4] = 3, a->cvc.until[5] = 2; expect_ok = 0; break;  /* day 32 */
		case 9: /* authority is a proper prefix of the issuer's name (still a legal name) */
			if (strlen(ca->cvc.holder) >= 9)
				a->cvc.authority[strlen(ca->cvc.holder) - 1] = 0, expect_ok = 0;
			else
				viol = 0;
			break;
		case 10: /* authority is the issuer's name with one more character */
			if (strlen(ca->cvc.holder) <= 11)
				a->cvc.authority[strlen(ca->cvc.holder)] = '7', expect_ok = 0;
			else
				viol = 0;
			break;
		}
		n = 0;
		{
			btok_cvc_t before = a->cvc;
			octet wrongkey[64];
			const octet* ik = ca->priv;
			int keymis = viol == 0 && sk_chance(&r, 1, 10);
			if (keymis)
			{
				memcpy(wrongkey, ca->priv, ca->privlen), wrongkey[3] ^= 1, ik = wrongkey, expect_ok = 0;
			}
			code = btokCVCIss(0, &n, &a->cvc, ca->cert, ca->certlen, ik, ca->privlen);
			if (code == ERR_OK && n <= sizeof(a->cert))
				code = btokCVCIss(a->cert, &a->certlen, &a->cvc, ca->cert, ca->certlen, ik, ca->privlen);
			sk_text(out, "issue level %u holder=%.13s key=%u days %u..%u violation=%d keymismatch=%d -> rc=%u", i, a->cvc.holder,
				(unsigned)a->privlen, a->from, a->until, viol, keymis, (unsigned)code);
			sk_dg_u64(&out->digest, code);
			sk_sig_add(sk_mix(((uint64_t)i << 24) | ((uint64_t)a->privlen << 16) | ((uint64_t)viol << 8) | (uint64_t)keymis, 51));
			{
				char nm[40];
				snprintf(nm, sizeof(nm), "fault.cvc_issue_violation_%d", viol);
				sk_count(nm, 1);
			}
			if ((code == ERR_OK) != expect_ok)
			{
				sk_heap_disarm();
				sk_violate(out, expect_ok ? "cvc_valid_issue_refused" : "cvc_invalid_issue_accepted",
					"btokCVCIss returned %u for an issuance that the header's name/date/key conditions %s (violation kind %d, key mismatch %d)",
					(unsigned)code, expect_ok ? "allow" : "forbid", viol, keymis);
				return;
			}
			if (code != ERR_OK)
			{
				chain_ok = 0;
				break;
			}
			a->issued = 1;
			/* parse back equals issued content */
			{
				btok_cvc_t back;
				memset(&back, 0xEE, sizeof(back));
				code = btokCVCUnwrap(&back, a->cert, a->certlen, ca->cvc.pubkey, 2 * ca->privlen);
				if (code != ERR_OK)
				{
					sk_heap_disarm();
					sk_violate(out, "cvc_issued_cert_rejected", "btokCVCUnwrap rejects a freshly issued certificate with %u", (unsigned)code);
					return;
				}
				if (strcmp(back.authority, before.authority) || strcmp(back.holder, before.holder) ||
					memcmp(back.from, before.from, 6) || memcmp(back.until, before.until, 6) ||
					back.pubkey_len != before.pubkey_len || memcmp(back.pubkey, before.pubkey, before.pubkey_len) ||
					memcmp(back.hat_eid, before.hat_eid, 5) || memcmp(back.hat_esign, before.hat_esign, 2))
				{
					sk_heap_disarm();
					sk_violate(out, "cvc_parse_back_differs", "content parsed back from an issued certificate differs from what was issued");
					return;
				}
				sk_count("probe.cvc_parse_back", 1);
			}
		}
	}
	/* ---- the root certificate in the documented self-signed mode:
	   btokCVCUnwrap(cvc, cert, len, cvc->pubkey, 0) verifies the signature under the key
	   the certificate itself carries.  cvc is an output: what it held before must not matter
	   (zeroed, filled with garbage, or holding the content of another certificate), an intact
	   root verifies, a root with one altered octet does not. */
	if (A[0].certlen)
	{
		static octet alt[sizeof(A[0].cert)];
		unsigned pre, trial;
		for (trial = 0; trial < 4; ++trial)
		{
			btok_cvc_t self;
			int altered = trial > 0;
			size_t pos = 0;
			memcpy(alt, A[0].cert, A[0].certlen);
			if (altered)
			{
				pos = sk_below(&r, (uint32_t)A[0].certlen);
				alt[pos] ^= (octet)(1u << sk_below(&r, 8));
			}
			pre = sk_below(&r, 4);
			switch (pre)
			{
			case 0: memset(&self, 0, sizeof(self)); break;
			case 1: sk_bytes(&r, (octet*)&self, sizeof(self)); break;
			case 2: self = A[depth ? 1 : 0].cvc; break;                 /* content of another certificate */
			default: memset(&self, 0, sizeof(self)); self.pubkey_len = A[0].cvc.pubkey_len; break;
			}
			EXACT2(code = btokCVCUnwrap(&self, e1_, A[0].certlen, self.pubkey, 0), alt, A[0].certlen, alt, 0);
			sk_text(out, "self-signed check of the root, %s, cvc before the call: %s -> rc=%u", altered ? "one octet altered" : "intact",
				pre == 0 ? "zeroed" : pre == 1 ? "garbage" : pre == 2 ? "another certificate" : "zeroed, matching key length", (unsigned)code);
			sk_dg_u64(&out->digest, code);
			sk_count(altered ? "fault.cvc_root_octet_altered" : "probe.cvc_root_selfsigned_intact", 1);
			if (!altered && code != ERR_OK)
			{
				sk_heap_disarm();
				sk_violate(out, "cvc_selfsigned_root_rejected", "btokCVCUnwrap(cvc, root, len, cvc->pubkey, 0) returned %u for an intact self-signed root", (unsigned)code);
				return;
			}
			if (altered && code == ERR_OK)
			{
				sk_heap_disarm();
				sk_violate(out, "cvc_altered_root_accepted", "self-signed verification of the root accepted it with octet %lu altered (cvc %s before the call)",
					(unsigned long)pos, pre == 0 ? "zeroed" : pre == 1 ? "garbage" : pre == 2 ? "held another certificate" : "zeroed with matching key length");
				return;
			}
		}
	}
	/* ---- validations on the simulated calendar */
	nval = 2 + sk_below(&r, 5);
	for (v = 0; v < nval && chain_ok; ++v)
	{
		unsigned lvl = 1 + sk_below(&r, depth);
		actor_t* a = &A[lvl];
		actor_t* ca = &A[lvl - 1];
		unsigned day;
		octet date[6];
		int in_window, fault = (int)sk_below(&r, 6), expect;
		static octet cert[512];
		size_t cl = a->certlen;
		memcpy(cert, a->cert, cl);
		switch (sk_below(&r, 7))
		{
		case 0: day = a->from; break;
		case 1: day = a->until; break;
		case 2: day = a->from ? a->from - 1 : 0; break;
		case 3: day = a->until + 1; break;
		case 4: day = a->until + 1 + sk_below(&r, 5000); break; /* clock jumped far ahead */
		default: day = a->from + sk_below(&r, a->until - a->from + 1); break;
		}
		if (day > B2_DAYS_MAX)
			day = B2_DAYS_MAX;
		b2_date(date, day);
		in_window = day >= a->from && day <= a->until;
		expect = in_window;
		switch (fault)
		{
		case 1: /* stored certificate damaged: one bit anywhere */
			cert[sk_below(&r, (uint32_t)cl)] ^= (octet)(1u << sk_below(&r, 8));
			expect = 0;
			sk_count("fault.cvc_stored_bit_flip", 1);
			break;
		case 2: /* verifier's clock yields an impossible date */
			switch (sk_below(&r, 7))
			{
			case 0: date[2] = 1, date[3] = 3 + (octet)sk_below(&r, 6); break;   /* month 13..18 */
			case 1: date[2] = 0, date[3] = 0; break;                            /* month 00 */
			case 2: date[4] = 0, date[5] = 0; break;                            /* day 00 */
			case 3: date[4] = 3, date[5] = 2 + (octet)sk_below(&r, 7); break;   /* day 32..38 */
			case 4: date[2] = 0, date[3] = (octet)(sk_chance(&r, 1, 2) ? 4 : 6), date[4] = 3, date[5] = 1; break; /* 31 April / June */
			case 5: /* 29 February of a non-leap year, 30 February of any */
				date[2] = 0, date[3] = 2;
				if (sk_chance(&r, 1, 2))
					date[4] = 3, date[5] = 0;
				else
				{
					unsigned y = 10u * date[0] + date[1];
					if (y % 4 == 0)
						date[1] = (octet)((date[1] + 1) % 10), date[0] = (octet)(date[1] == 0 ? (date[0] + 1) % 10 : date[0]);
					date[4] = 2, date[5] = 9;
				}
				break;
			default: date[sk_below(&r, 6)] = (octet)(10 + sk_below(&r, 246)); break; /* not a decimal digit */
			}
			expect = 0;
			sk_count("fault.cvc_invalid_calendar_date", 1);
			break;
		case 3: /* wrong issuer certificate presented */
			if (lvl >= 2)
			{
				ca = &A[lvl - 2];
				expect = 0;
				sk_count("fault.cvc_wrong_issuer", 1);
			}
			break;
		}
		/* compound fault: one transient allocation failure inside the verification (own stream of
		   draws, so that the histories of a seed stay what they were).  Whatever fails, a
		   certificate that must be refused is still refused; a good one may then fail. */
		{
			long failed0 = sk_heap_failed();
			afail = 0;
			if (sk_chance(&fr, 1, 3))
				sk_heap_fail_at(1 + (long)sk_below(&fr, 5), 0);
			EXACT2(code = btokCVCVal(e1_, cl, e2_, ca->certlen, date), cert, cl, ca->cert, ca->certlen);
			sk_heap_fail_at(0, 0);
			if (sk_heap_failed() != failed0)
				afail = 1, sk_count("fault.cvc_allocation_failure_during_validation", 1);
		}
		if (afail && expect && code != ERR_OK)
		{
			sk_text(out, "validate level %u on day %u: allocation failure, rc=%u", lvl, day, (unsigned)code);
			sk_dg_u64(&out->digest, code);
			continue;
		}
		if (afail && !expect)
			sk_count("probe.cvc_refusal_checked_under_allocation_failure", 1);
		sk_text(out, "validate level %u on day %u (window %u..%u) fault=%d%s -> rc=%u", lvl, day, a->from, a->until, fault, afail ? " + one failed allocation" : "", (unsigned)code);
		sk_dg_u64(&out->digest, code);
		sk_count(in_window ? "probe.cvc_date_in_window" : "fault.cvc_clock_outside_validity", 1);
		if ((code == ERR_OK) != expect)
		{
			sk_heap_disarm();
			sk_violate(out, expect ? "cvc_valid_cert_rejected" : "cvc_invalid_cert_accepted",
				"btokCVCVal returned %u on day %u for a level-%u certificate valid %u..%u (fault %d)", (unsigned)code, day, lvl, a->from, a->until, fault);
			return;
		}
		/* Val2 must agree with Val when fed the parsed issuer content */
		if (fault != 3)
		{
			btok_cvc_t cvca, cvc;
			err_t c2 = btokCVCUnwrap(&cvca, ca->cert, ca->certlen, 0, 0);
			int afail2 = 0;
			if (c2 == ERR_OK)
			{
				long failed0 = sk_heap_failed();
				if (!expect && sk_chance(&fr, 1, 3))
					sk_heap_fail_at(1 + (long)sk_below(&fr, 3), 0);
				EXACT2(c2 = btokCVCVal2(&cvc, e1_, cl, &cvca, date), cert, cl, cert, 0);
				sk_heap_fail_at(0, 0);
				afail2 = sk_heap_failed() != failed0;
			}
			if (afail2)
				sk_count("fault.cvc_allocation_failure_during_validation", 1);
			if ((afail || afail2) && !expect && c2 == ERR_OK)
			{
				sk_heap_disarm();
				sk_violate(out, "cvc_invalid_cert_accepted", "btokCVCVal2 returned ERR_OK for a certificate that must be refused (fault %d) when one allocation failed", fault);
				return;
			}
			if (!afail && !afail2 && (c2 == ERR_OK) != (code == ERR_OK))
			{
				sk_heap_disarm();
				sk_violate(out, "cvc_val_val2_disagree", "btokCVCVal gives %u, btokCVCVal2 gives %u for the same certificate, issuer and date", (unsigned)code, (unsigned)c2);
				return;
			}
		}
		/* certificate/private key correspondence */
		if (fault == 0)
		{
			err_t c3 = btokCVCMatch(a->cert, a->certlen, a->priv, a->privlen);
			err_t c4 = btokCVCMatch(a->cert, a->certlen, ca->priv, ca->privlen);
			if (c3 != ERR_OK || c4 == ERR_OK)
			{
				sk_heap_disarm();
				sk_violate(out, "cvc_match", "btokCVCMatch: own key rc=%u, issuer's key rc=%u", (unsigned)c3, (unsigned)c4);
				return;
			}
		}
	}
	if (with_rng)
		rngClose();
	sk_heap_disarm();
	/* with the global generator created, util.c's destructor list (one block)
	   lives until process exit */
	if (sk_heap_live() > (with_rng ? 1 : 0))
		sk_violate(out, "leak:cvc", "%ld block(s) (%lu octets) left after CVC operations", sk_heap_live(), (unsigned long)sk_heap_live_bytes());
	if (sk_heap_overrun())
		sk_violate(out, "overrun:cvc", "canary damaged");
	out->sig = 0;
}

/* ---------------------------------------------------------------- (c) */
void run_pki(uint64_t seed, const sk_mask* mask, sk_result* out)
{
	sk_rng r;
	int share;
	size_t m, n = 0, pl, on = 0;
	octet key[64], pwd[64], salt[8], got[80];
	static octet epki[512], stored[512];
	err_t code;
	int fault;
	(void)mask;
	sk_rng_seed(&r, seed);
	sk_heap_reset(sk_u64(&r));
	share = (int)sk_below(&r, 2);
	if (share)
	{
		static const size_t sl[3] = { 17, 25, 33 };
		m = sl[sk_below(&r, 3)];
	}
	else
		m = PL[sk_below(&r, 4)];
	sk_bytes(&r, key, m), sk_bytes(&r, pwd, 64), sk_bytes(&r, salt, 8);
	{
		/* passwords without zero octets: belt-hmac pads its key with zeros, so a password and the same
		   password followed by zero octets ARE the same PBKDF2 input - not two different passwords */
		size_t i;
		for (i = 0; i < 64; ++i)
			if (pwd[i] == 0)
				pwd[i] = (octet)(1 + i);
	}
	if (share)
		key[0] = (octet)(1 + key[0] % 16);
	pl = sk_below(&r, 33);
	out->nops = 0;
	sk_heap_arm();
	code = share ? bpkiShareWrap(0, &n, 0, m, 0, 0, 0, 10000) : bpkiPrivkeyWrap(0, &n, 0, m, 0, 0, 0, 10000);
	if (code == ERR_OK && n <= sizeof(epki))
		code = share ? bpkiShareWrap(epki, &n, key, m, pwd, pl, salt, 10000) : bpkiPrivkeyWrap(epki, &n, key, m, pwd, pl, salt, 10000);
	sk_text(out, "%s container: key=%u pwd=%u -> rc=%u len=%u", share ? "share" : "privkey", (unsigned)m, (unsigned)pl, (unsigned)code, (unsigned)n);
	if (code != ERR_OK)
	{
		sk_heap_disarm();
		sk_violate(out, "pki_wrap_failed", "valid %s container creation returned %u", share ? "share" : "private key", (unsigned)code);
		return;
	}
	memcpy(stored, epki, n);
	fault = (int)sk_below(&r, 5);
	switch (fault)
	{
	case 1: stored[sk_below(&r, (uint32_t)n)] ^= (octet)(1u << sk_below(&r, 8)); sk_count("fault.pki_stored_bit_flip", 1); break;
	case 2: n -= 1 + sk_below(&r, 8); sk_count("fault.pki_truncated", 1); break;
	case 3:
	{
		size_t at = pl ? sk_below(&r, (uint32_t)pl) : 0;
		pwd[at] ^= 1;
		if (pwd[at] == 0)
			pwd[at] = 2;   /* keep it zero-free (see above) and different from the original 1 */
		if (!pl)
			pl = 1;
		sk_count("fault.pki_wrong_password", 1);
		break;
	}
	case 4: pl = pl ? pl - 1 : 1; sk_count("fault.pki_wrong_password", 1); break;
	}
	memset(got, 0xEE, sizeof(got));
	{
		/* the stored container in a block of exactly its (possibly truncated) length: a parser that
		   follows a damaged length field out of the container leaves the block */
		octet* exact = (octet*)sk_alloc(n ? n : 1);
		memcpy(exact, stored, n);
		code = share ? bpkiShareUnwrap(got, &on, exact, n, pwd, pl) : bpkiPrivkeyUnwrap(got, &on, exact, n, pwd, pl);
		sk_free(exact);
	}
	sk_heap_disarm();
	sk_text(out, "  unwrap with fault %d -> rc=%u", fault, (unsigned)code);
	sk_dg_u64(&out->digest, code);
	sk_sig_add(sk_mix(((uint64_t)share << 16) | ((uint64_t)m << 8) | (uint64_t)fault, 61));
	if (fault == 0)
	{
		sk_count("probe.pki_intact_roundtrip", 1);
		if (code != ERR_OK || on != m || memcmp(got, key, m))
			sk_violate(out, "pki_roundtrip", "intact container with the right password: rc=%u len=%u", (unsigned)code, (unsigned)on);
	}
	else
	{
		size_t i;
		if (code == ERR_OK && on == m && !memcmp(got, key, m) && fault == 1)
		{
			/* a flipped bit that still yields the original key would have to sit
			   outside everything that is checked; report it */
			sk_violate(out, "pki_damaged_container_accepted", "a container with one flipped bit was accepted and returned the key");
		}
		else if (code == ERR_OK)
			sk_violate(out, "pki_bad_input_accepted", "unwrap succeeded with %s", fault >= 3 ? "a wrong password" : "a damaged container");
		else
			for (i = 0; i + 8 <= m; ++i)
				if (memmem(got, sizeof(got), key + i, 8))
				{
					sk_violate(out, "pki_released_on_failure", "failed unwrap (rc=%u) left 8+ octets of the key in the output", (unsigned)code);
					break;
				}
	}
	if (sk_heap_live())
		sk_violate(out, "leak:pki", "%ld block(s) left", sk_heap_live());
	out->sig = 0;
}
