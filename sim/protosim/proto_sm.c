/* C17 (a): secure-messaging dialogue between a terminal and a card over a
   faulty transport.  Ground truth (counters, whether octets changed) is known
   to the simulator, so the oracle is exactly the property (DESIGN.md C17). */
#include "proto.h"
#include <stdio.h>
#include "bee2/core/apdu.h"
#include "bee2/crypto/btok.h"

enum { X_NONE, X_SUBST1, X_SUBSTN, X_TRUNC, X_EXTEND, X_DROP_RETRY, X_SKIP_INC, X_DOUBLE_INC, X_NK };
static const char* XN[] = { "none", "substitute1", "substituteN", "truncate", "extend", "drop+retry", "skip_CtrInc", "double_CtrInc" };

static sk_result* OUT;

static size_t pick_cdf(sk_rng* r)
{
	static const size_t sp[] = { 0, 1, 15, 16, 17, 239, 240, 241, 254, 255, 256, 257, 300 };
	return sk_chance(r, 1, 2) ? sp[sk_below(r, 13)] : sk_below(r, 301);
}

static size_t pick_le(sk_rng* r)
{
	static const size_t sp[] = { 0, 1, 255, 256, 257, 300, 65535, 65536 };
	return sp[sk_below(r, 8)];
}

static int has_window8(const octet* hay, size_t hn, const octet* nee, size_t nn)
{
	size_t i;
	for (i = 0; i + 8 <= nn; ++i)
		if (hn >= 8 && memmem(hay, hn, nee + i, 8))
			return 1;
	return 0;
}

/* the code as it arrives: in a block of exactly its length */
static err_t cmd_unwrap_exact(apdu_cmd_t* cmd, size_t* size, const octet* apdu, size_t n, void* st)
{
	octet* w = (octet*)sk_alloc(n ? n : 1);
	err_t code;
	memcpy(w, apdu, n);
	code = btokSMCmdUnwrap(cmd, size, w, n, st);
	sk_free(w);
	return code;
}
static err_t resp_unwrap_exact(apdu_resp_t* resp, size_t* size, const octet* apdu, size_t n, void* st)
{
	octet* w = (octet*)sk_alloc(n ? n : 1);
	err_t code;
	memcpy(w, apdu, n);
	code = btokSMRespUnwrap(resp, size, w, n, st);
	sk_free(w);
	return code;
}

static void alter(sk_rng* r, int kind, octet* apdu, size_t* n, size_t cap)
{
	size_t k;
	switch (kind)
	{
	case X_SUBST1:
		apdu[sk_below(r, (uint32_t)*n)] ^= (octet)(1 + sk_below(r, 255));
		break;
	case X_SUBSTN:
		for (k = 2 + sk_below(r, 5); k--;)
			apdu[sk_below(r, (uint32_t)*n)] ^= (octet)(1 + sk_below(r, 255));
		break;
	case X_TRUNC:
		*n -= 1 + sk_below(r, (uint32_t)(*n > 12 ? 12 : *n - 1));
		break;
	case X_EXTEND:
		for (k = 1 + sk_below(r, 9); k-- && *n < cap;)
			apdu[(*n)++] = (octet)sk_below(r, 256);
		break;
	}
}

void run_sm(uint64_t seed, const sk_mask* mask, sk_result* out)
{
	sk_rng r;
	octet key[32];
	void *st_t, *st_c;
	unsigned nex, e, pre;
	uint64_t ctr_t = 0, ctr_c = 0;
	size_t keep = btokSM_keep();
	static octet apdu[1024], apdu0[1024], big[2048];
	OUT = out;
	sk_rng_seed(&r, seed);
	sk_heap_reset(sk_u64(&r));
	sk_bytes(&r, key, 32);
	st_t = sk_alloc(keep), st_c = sk_alloc(keep);
	btokSMStart(st_t, key), btokSMStart(st_c, key);
	/* pre-advance both counters to sit just below a carry */
	pre = sk_chance(&r, 1, 40) ? 65530 + 2 * sk_below(&r, 3) : sk_chance(&r, 1, 3) ? 250 + 2 * sk_below(&r, 4) : 2 * sk_below(&r, 4);
	for (e = 0; e < pre; ++e)
		btokSMCtrInc(st_t), btokSMCtrInc(st_c);
	ctr_t = ctr_c = pre;
	nex = 1 + sk_below(&r, 6);
	out->nops = nex;
	sk_text(out, "SM dialogue: %u exchanges, counters pre-advanced to %u", nex, pre);
	for (e = 0; e < nex && !out->violated; ++e)
	{
		size_t cdf = pick_cdf(&r), le = pick_le(&r), n = 0, n0, sz = 0, rl;
		int fc = sk_chance(&r, 1, 2) ? X_NONE : (int)(1 + sk_below(&r, X_NK - 1));
		int fr = sk_chance(&r, 2, 3) ? X_NONE : (int)(1 + sk_below(&r, X_EXTEND));
		apdu_cmd_t* cmd = (apdu_cmd_t*)sk_alloc(sizeof(apdu_cmd_t) + cdf);
		apdu_cmd_t* cmd1;
		apdu_resp_t *resp, *resp1;
		err_t code;
		sk_rng fr_rng;
		uint64_t frs = sk_u64(&r);
		sk_rng_seed(&fr_rng, frs);
		cmd->cla = (octet)(sk_below(&r, 256) & ~0x04u), cmd->ins = (octet)sk_below(&r, 256);
		cmd->p1 = (octet)sk_below(&r, 256), cmd->p2 = (octet)sk_below(&r, 256);
		cmd->cdf_len = cdf, cmd->rdf_len = le;
		sk_bytes(&r, cmd->cdf, cdf);
		rl = le ? 1 + sk_below(&r, (uint32_t)(le > 300 ? 300 : le)) : 0;
		if (!sk_keep(mask, e))
			continue;
		if (!apduCmdIsValid(cmd))
			continue;
		sk_text(out, " exchange %u: cmd cdf=%u le=%u fault=%s; resp rdf=%u fault=%s", e, (unsigned)cdf, (unsigned)le, XN[fc], (unsigned)rl, XN[fr]);
		{
			char nm[48];
			snprintf(nm, sizeof(nm), "fault.sm_cmd_%s", XN[fc]);
			sk_count(nm, 1);
			sk_sig_add(sk_mix(((uint64_t)(cdf > 255 ? 2 : cdf > 0) << 20) | ((uint64_t)(le > 256 ? 2 : le > 0) << 16) | ((uint64_t)fc << 8) | (uint64_t)fr, 41));
		}
		/* ---- terminal protects the command */
		if (fc == X_SKIP_INC)
		{
			/* endpoint fault: wrap attempted at the wrong (even) parity */
			code = btokSMCmdWrap(0, &n, cmd, st_t);
			if (code == ERR_OK && n <= sizeof(apdu))
				code = btokSMCmdWrap(apdu, &n, cmd, st_t);
			sk_dg_u64(&out->digest, code);
			if (code != ERR_BAD_LOGIC)
			{
				sk_violate(out, "sm_wrong_parity_accepted", "btokSMCmdWrap at an even counter returned %u instead of ERR_BAD_LOGIC", (unsigned)code);
				break;
			}
			sk_count("probe.sm_wrong_parity_refused", 1);
		}
		btokSMCtrInc(st_t), ++ctr_t;
		if (fc == X_DOUBLE_INC)
		{
			btokSMCtrInc(st_t), ++ctr_t;
			code = btokSMCmdWrap(0, &n, cmd, st_t);
			if (code == ERR_OK && n <= sizeof(apdu))
				code = btokSMCmdWrap(apdu, &n, cmd, st_t);
			if (code != ERR_BAD_LOGIC)
			{
				sk_violate(out, "sm_wrong_parity_accepted", "btokSMCmdWrap at an even counter returned %u instead of ERR_BAD_LOGIC", (unsigned)code);
				break;
			}
			sk_count("probe.sm_wrong_parity_refused", 1);
			/* the terminal re-synchronises: one more increment puts it 2 ahead of the
			   card (same parity, out of step): unspecified territory, only safety */
			btokSMCtrInc(st_t), ++ctr_t;
		}
		code = btokSMCmdWrap(0, &n, cmd, st_t);
		if (code != ERR_OK || n > sizeof(apdu))
		{
			sk_violate(out, "sm_wrap_failed", "btokSMCmdWrap(size query) returned %u for a valid command (cdf=%u le=%u)", (unsigned)code, (unsigned)cdf, (unsigned)le);
			break;
		}
		code = btokSMCmdWrap(apdu, &n0, cmd, st_t);
		if (code != ERR_OK || n0 != n)
		{
			sk_violate(out, "sm_wrap_failed", "btokSMCmdWrap returned %u (len %u vs %u) for a valid command", (unsigned)code, (unsigned)n0, (unsigned)n);
			break;
		}
		memcpy(apdu0, apdu, n);
		n0 = n;
		if (fc == X_DROP_RETRY)
		{
			/* the command is lost; the terminal sends it again (new counter value,
			   same parity): the card is now 2 behind */
			btokSMCtrInc(st_t), btokSMCtrInc(st_t), ctr_t += 2;
			code = btokSMCmdWrap(apdu, &n, cmd, st_t);
			if (code != ERR_OK)
			{
				sk_violate(out, "sm_wrap_failed", "retry wrap returned %u", (unsigned)code);
				break;
			}
			memcpy(apdu0, apdu, n), n0 = n;
		}
		/* complete single-octet sweep of this protected command (every position),
		   each tried against a fresh card state at the right counter */
		if (fc == X_NONE && ctr_c < 300 && ctr_t == ctr_c + 1 && sk_chance(&r, 1, 8))
		{
			void* st_x = sk_alloc(keep);
			size_t pos;
			for (pos = 0; pos < n0 && !out->violated; ++pos)
			{
				uint64_t k;
				size_t xs = 0;
				err_t xc;
				octet save = apdu[pos];
				apdu[pos] ^= (octet)(1 + sk_below(&fr_rng, 255));
				btokSMStart(st_x, key);
				for (k = 0; k <= ctr_c; ++k)
					btokSMCtrInc(st_x);
				xc = cmd_unwrap_exact(0, &xs, apdu, n0, st_x);
				if (xc == ERR_OK && xs <= sizeof(big))
					xc = cmd_unwrap_exact((apdu_cmd_t*)big, &xs, apdu, n0, st_x);
				apdu[pos] = save;
				if (xc == ERR_OK)
					sk_violate(out, "sm_altered_command_accepted", "sweep: octet %u of a %u-octet protected command (cdf=%u le=%u) was substituted and the command was accepted",
						(unsigned)pos, (unsigned)n0, (unsigned)cdf, (unsigned)le);
			}
			sk_free(st_x);
			sk_count("probe.sm_sweep_positions", n0);
			sk_count("probe.sm_altered_checked", n0);
			if (out->violated)
				break;
		}
		if (fc >= X_SUBST1 && fc <= X_EXTEND)
			alter(&fr_rng, fc, apdu, &n, sizeof(apdu));
		/* ---- card removes protection */
		btokSMCtrInc(st_c), ++ctr_c;
		code = cmd_unwrap_exact(0, &sz, apdu, n, st_c);
		if (code == ERR_OK && sz <= sizeof(big))
		{
			cmd1 = (apdu_cmd_t*)sk_alloc(sz);
			code = cmd_unwrap_exact(cmd1, &sz, apdu, n, st_c);
		}
		else
			cmd1 = 0;
		sk_dg_u64(&out->digest, code);
		{
			int altered = n != n0 || memcmp(apdu, apdu0, n0);
			int instep = ctr_t == ctr_c;
			if (altered)
			{
				sk_count("probe.sm_altered_checked", 1);
				if (code == ERR_OK)
				{
					sk_violate(out, "sm_altered_command_accepted", "a protected command with %s octets was accepted (cdf=%u le=%u, %s)",
						n != n0 ? "removed/appended" : "substituted", (unsigned)cdf, (unsigned)le, XN[fc]);
					break;
				}
				if (cmd1 && cdf >= 8 && has_window8((octet*)cmd1, sz, cmd->cdf, cdf))
				{
					sk_violate(out, "sm_released_on_failure", "rejected command left 8+ octets of the original data field in the output");
					break;
				}
			}
			else if (instep)
			{
				sk_count("probe.sm_instep_roundtrip", 1);
				if (code != ERR_OK)
				{
					sk_violate(out, "sm_honest_command_rejected", "in-step unaltered command rejected with %u (cdf=%u le=%u)", (unsigned)code, (unsigned)cdf, (unsigned)le);
					break;
				}
				if (cmd1->cla != (cmd->cla | 0x04) && cmd1->cla != cmd->cla)
				{
					sk_violate(out, "sm_roundtrip_mismatch", "CLA differs after round trip");
					break;
				}
				if (cmd1->ins != cmd->ins || cmd1->p1 != cmd->p1 || cmd1->p2 != cmd->p2 ||
					cmd1->cdf_len != cdf || cmd1->rdf_len != le || memcmp(cmd1->cdf, cmd->cdf, cdf))
				{
					sk_violate(out, "sm_roundtrip_mismatch", "command fields differ after protect/unprotect (cdf %u->%u, le %u->%u)",
						(unsigned)cdf, (unsigned)cmd1->cdf_len, (unsigned)le, (unsigned)cmd1->rdf_len);
					break;
				}
			}
			else
				sk_count("probe.sm_out_of_step_unspecified", 1);
			if (code != ERR_OK)
			{
				/* the card answers nothing; both sides realign for the next exchange:
				   the simulator resets the session (fresh SM states on the same key) */
				btokSMStart(st_t, key), btokSMStart(st_c, key);
				ctr_t = ctr_c = 0;
				continue;
			}
		}
		/* ---- card protects the response */
		resp = (apdu_resp_t*)sk_alloc(sizeof(apdu_resp_t) + rl);
		resp->sw1 = (octet)(0x90 + sk_below(&r, 2) * 0x0A), resp->sw2 = (octet)sk_below(&r, 256);
		if (resp->sw1 == 0x9A)
			resp->sw1 = 0x6A;
		resp->rdf_len = rl;
		sk_bytes(&r, resp->rdf, rl);
		if (!apduRespIsValid(resp))
			continue;
		btokSMCtrInc(st_c), ++ctr_c;
		code = btokSMRespWrap(0, &n, resp, st_c);
		if (code == ERR_OK && n <= sizeof(apdu))
			code = btokSMRespWrap(apdu, &n, resp, st_c);
		if (code != ERR_OK)
		{
			sk_violate(out, "sm_wrap_failed", "btokSMRespWrap returned %u for a valid response (rdf=%u)", (unsigned)code, (unsigned)rl);
			break;
		}
		memcpy(apdu0, apdu, n), n0 = n;
		if (fr != X_NONE)
			alter(&fr_rng, fr, apdu, &n, sizeof(apdu));
		btokSMCtrInc(st_t), ++ctr_t;
		code = resp_unwrap_exact(0, &sz, apdu, n, st_t);
		if (code == ERR_OK && sz <= sizeof(big))
		{
			resp1 = (apdu_resp_t*)sk_alloc(sz);
			code = resp_unwrap_exact(resp1, &sz, apdu, n, st_t);
		}
		else
			resp1 = 0;
		sk_dg_u64(&out->digest, code);
		{
			int altered = n != n0 || memcmp(apdu, apdu0, n0);
			int instep = ctr_t == ctr_c;
			if (altered)
			{
				sk_count("probe.sm_altered_checked", 1);
				if (code == ERR_OK)
				{
					sk_violate(out, "sm_altered_response_accepted", "a protected response with %s octets was accepted (rdf=%u, %s)",
						n != n0 ? "removed/appended" : "substituted", (unsigned)rl, XN[fr]);
					break;
				}
				if (resp1 && rl >= 8 && has_window8((octet*)resp1, sz, resp->rdf, rl))
				{
					sk_violate(out, "sm_released_on_failure", "rejected response left 8+ octets of the original data field in the output");
					break;
				}
			}
			else if (instep)
			{
				sk_count("probe.sm_instep_roundtrip", 1);
				if (code != ERR_OK)
				{
					sk_violate(out, "sm_honest_response_rejected", "in-step unaltered response rejected with %u (rdf=%u)", (unsigned)code, (unsigned)rl);
					break;
				}
				if (resp1->sw1 != resp->sw1 || resp1->sw2 != resp->sw2 || resp1->rdf_len != rl || memcmp(resp1->rdf, resp->rdf, rl))
				{
					sk_violate(out, "sm_roundtrip_mismatch", "response fields differ after protect/unprotect");
					break;
				}
			}
			else
				sk_count("probe.sm_out_of_step_unspecified", 1);
			if (code != ERR_OK)
			{
				btokSMStart(st_t, key), btokSMStart(st_c, key);
				ctr_t = ctr_c = 0;
			}
		}
		/* wrong parity on the response side: unwrap of a response at an odd counter */
		if (sk_chance(&r, 1, 6) && ctr_t == ctr_c && (ctr_t & 1) == 0)
		{
			btokSMCtrInc(st_t), ++ctr_t; /* odd now */
			code = resp_unwrap_exact(resp1 ? resp1 : (apdu_resp_t*)big, &sz, apdu0, n0, st_t);
			if (code != ERR_BAD_LOGIC)
			{
				sk_violate(out, "sm_wrong_parity_accepted", "btokSMRespUnwrap at an odd counter returned %u instead of ERR_BAD_LOGIC", (unsigned)code);
				break;
			}
			sk_count("probe.sm_wrong_parity_refused", 1);
			btokSMCtrInc(st_c), ++ctr_c; /* the card follows: both odd+... realign */
			btokSMCtrInc(st_t), btokSMCtrInc(st_c), ctr_t++, ctr_c++;
		}
	}
	if (sk_heap_overrun())
		sk_violate(out, "overrun:sm", "write outside an exactly sized SM state / APDU structure");
	out->sig = 0;
}
