/* protosim: two-party protocol simulations over a simulated channel (C04, C17). */
#ifndef PROTO_H
#define PROTO_H
#include "simk.h"
#include "b2util.h"
#include "bee2/core/err.h"
#include <string.h>

/* ------------------------------------------------------------- channel */
#define CH_MAXMSG 2400
#define CH_TIMEOUT 40

enum { F_NONE, F_CORRUPT1, F_CORRUPTN, F_POINT, F_TRUNC, F_EXTEND, F_DROP, F_DUP,
	F_REPLAY, F_FRAGMENT, F_READ_ERR, F_WRITE_ERR, F_STALL, F_NKINDS };
extern const char* FAULT_NAME[];

typedef struct {
	int dir, ord;          /* direction (0: to A, 1: to B) and ordinal of the message in it */
	int kind;
	unsigned pos, val, param;
	unsigned idx;          /* mask index */
	int fired;
} ch_fault;

typedef struct { octet data[CH_MAXMSG]; size_t len, off, orig_len; int altered, dup, frag, ord; } ch_msg;
typedef struct { ch_msg q[6]; int head, tail; } ch_queue;

typedef struct channel {
	ch_queue dir[2];
	int nwritten[2];
	ch_fault faults[8];
	int nfaults;
	int tampered;          /* bytes delivered to a reader differ from the honest stream */
	int liveness;          /* a message was lost / a call returned an I/O error */
	int done[2];
	int fragment_honest;   /* fragmented delivery of this direction/ordinal is reassembled by the reader */
	/* transcript of the honest content of every message, for replay faults and Run==steps */
	octet log[2][3][CH_MAXMSG];
	size_t loglen[2][3];
	const struct channel* prev;
	/* point substitution helper */
	size_t field_len;      /* l/4 octets per coordinate */
	int point_off[2][3];   /* offset of the curve point in message (dir, ord), -1 = none */
	const octet* curve_yG; /* y coordinate of the base point (x = 0) */
	int xonly;             /* the protocol uses only x coordinates of exchanged points (BPACE): P -> -P is not an alteration it can see */
	const octet* curve_p;
	const octet* own_point[2];
} channel;

typedef struct { channel* ch; int side; } endpoint; /* side 0 = A, 1 = B */

void ch_init(channel* ch, const channel* prev);
err_t ch_read(size_t* read, void* buf, size_t count, void* file);   /* read_i */
err_t ch_write(size_t* written, const void* buf, size_t count, void* file); /* write_i */
/* harness-side helpers for the step drivers: whole messages */
err_t ch_recv_msg(endpoint* ep, octet* buf, size_t* len, size_t max);
err_t ch_send_msg(endpoint* ep, const octet* buf, size_t len);

/* seeded tape generator (gen_i) */
typedef struct { sk_rng r; int mode; unsigned calls; unsigned flip_call; } tape_t; /* flip_call: 1-based draw whose lowest bit is inverted (0: none) */ /* mode 0 uniform, 1 first draws zero, 2 first draws FF, 3 all zero */
void tape_gen(void* buf, size_t count, void* state);

/* sub-engines */
void run_bake(uint64_t seed, const sk_mask* mask, sk_result* out, int alloc_mode);
void run_bake_sweep(uint64_t seed, const sk_mask* mask, sk_result* out);
void run_bake_base(uint64_t seed, const sk_mask* mask, sk_result* out);
void run_bake_diff(uint64_t seed, const sk_mask* mask, sk_result* out);
void run_bake_adv(uint64_t seed, const sk_mask* mask, sk_result* out);
void run_bake_tape(uint64_t seed, const sk_mask* mask, sk_result* out);
void run_sm(uint64_t seed, const sk_mask* mask, sk_result* out);
void run_cvc(uint64_t seed, const sk_mask* mask, sk_result* out);
void run_pki(uint64_t seed, const sk_mask* mask, sk_result* out);

#endif
