/* protosim engine: variant selects the sub-simulation. */
#include "proto.h"

static int which;

static void init(const sk_opts* o)
{
	const char* v = o->variant ? o->variant : "";
	if (!strcmp(v, "bakealloc")) which = 1;
	else if (!strcmp(v, "sm")) which = 2;
	else if (!strcmp(v, "cvc")) which = 3;
	else if (!strcmp(v, "pki")) which = 4;
	else if (!strcmp(v, "bakesweep")) which = 5;
	else if (!strcmp(v, "bakebase")) which = 6;
	else if (!strcmp(v, "bakediff")) which = 7;
	else if (!strcmp(v, "bakeadv")) which = 8;
	else if (!strcmp(v, "baketape")) which = 9;
	else which = 0;
}

static void run(uint64_t seed, const sk_mask* mask, sk_result* out)
{
	switch (which)
	{
	case 0: run_bake(seed, mask, out, 0); break;
	case 1: run_bake(seed, mask, out, 1); break;
	case 2: run_sm(seed, mask, out); break;
	case 3: run_cvc(seed, mask, out); break;
	case 5: run_bake_sweep(seed, mask, out); break;
	case 6: run_bake_base(seed, mask, out); break;
	case 7: run_bake_diff(seed, mask, out); break;
	case 8: run_bake_adv(seed, mask, out); break;
	case 9: run_bake_tape(seed, mask, out); break;
	default: run_pki(seed, mask, out); break;
	}
}

static void summary(FILE* f) { (void)f; }

sk_engine sk_the_engine = { "protosim", init, run, summary };
