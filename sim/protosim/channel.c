/* Simulated message channel between two protocol parties (DESIGN.md §2). */
#include "proto.h"

const char* FAULT_NAME[] = { "none", "corrupt1", "corruptN", "point_subst", "truncate",
	"extend", "drop", "duplicate", "replay", "fragment", "read_error", "write_error", "stall" };

void ch_init(channel* ch, const channel* prev)
{
	memset(ch, 0, sizeof(*ch));
	memset(ch->point_off, 0xFF, sizeof(ch->point_off));
	ch->prev = prev;
}

static ch_fault* find_fault(channel* ch, int dir, int ord, int write_side)
{
	int i;
	for (i = 0; i < ch->nfaults; ++i)
	{
		ch_fault* f = &ch->faults[i];
		int at_write = !(f->kind == F_FRAGMENT || f->kind == F_READ_ERR);
		if (f->dir == dir && f->ord == ord && at_write == write_side)
			return f;
	}
	return 0;
}

static void count_fault(ch_fault* f)
{
	char nm[48];
	if (f->fired)
		return;
	f->fired = 1;
	snprintf(nm, sizeof(nm), "fault.%s", FAULT_NAME[f->kind]);
	sk_count(nm, 1);
}

static int cur_ord;
static const octet* cur_orig;   /* what the writer handed to ch_write (for enqueue) */
static size_t cur_orig_len;
static void enqueue(ch_queue* q, const octet* data, size_t len, size_t orig_len, int altered, int dup)
{
	ch_msg* m;
	if (q->tail >= 6)
		return;
	m = &q->q[q->tail++];
	/* a "corruption" that leaves every octet as it was (two flips of the same bit, a point
	   substituted by itself) is no alteration */
	if (altered == 1 && cur_orig && len == cur_orig_len && !memcmp(data, cur_orig, len))
	{
		altered = 0;
		sk_count("probe.corruption_without_effect", 1);
	}
	memcpy(m->data, data, len);
	m->len = len, m->off = 0, m->orig_len = orig_len, m->altered = altered, m->dup = dup, m->frag = 0, m->ord = cur_ord;
}

err_t ch_write(size_t* written, const void* buf, size_t count, void* file)
{
	endpoint* ep = (endpoint*)file;
	channel* ch = ep->ch;
	int dir = ep->side == 0 ? 1 : 0; /* A writes towards B (dir 1) */
	int ord = ch->nwritten[dir]++;
	ch_queue* q = &ch->dir[dir];
	ch_fault* f = find_fault(ch, dir, ord, 1);
	static octet tmp[CH_MAXMSG];
	size_t len = count;
	if (count > CH_MAXMSG - 64)
		return ERR_OUTOFMEMORY;
	cur_ord = ord;
	cur_orig = (const octet*)buf, cur_orig_len = count;
	memcpy(tmp, buf, count);
	if (ord < 3)
		memcpy(ch->log[dir][ord], buf, count), ch->loglen[dir][ord] = count;
	*written = count;
	sk_yield(60, 0);
	if (!f)
	{
		enqueue(q, tmp, len, count, 0, 0);
		return ERR_OK;
	}
	count_fault(f);
	switch (f->kind)
	{
	case F_WRITE_ERR:
		ch->liveness = 1;
		*written = 0;
		return ERR_FILE_WRITE;
	case F_DROP:
	case F_STALL:
		ch->liveness = 1;
		return ERR_OK;
	case F_CORRUPT1:
		if (count)
		{
			unsigned p = f->pos % count;
			tmp[p] ^= (octet)(f->val % 255 + 1);
			enqueue(q, tmp, len, count, 1, 0);
		}
		else
			enqueue(q, tmp, len, count, 0, 0);
		return ERR_OK;
	case F_CORRUPTN:
	{
		unsigned k, n = 2 + f->param % 6;
		sk_rng r;
		sk_rng_seed(&r, f->val);
		for (k = 0; k < n && count; ++k)
			tmp[sk_below(&r, (uint32_t)count)] ^= (octet)(1 + sk_below(&r, 255));
		enqueue(q, tmp, len, count, count != 0, 0);
		return ERR_OK;
	}
	case F_POINT:
	{
		/* replace the curve point carried by this message by a structured bad
		   (or merely different) point */
		size_t fl = ch->field_len;
		int po = ord < 3 ? ch->point_off[dir][ord] : -1;
		if (fl && po >= 0 && count >= (size_t)po + 2 * fl)
		{
			octet* pt = tmp + po;
			switch (f->param % 9)
			{
			case 0: memset(pt, 0, 2 * fl); break;                        /* (0,0) */
			case 1: memset(pt, 0xFF, fl); break;                         /* x >= p */
			case 2: if (ch->curve_p) memcpy(pt, ch->curve_p, fl); break; /* x = p */
			case 3: pt[fl] ^= 1; break;                                  /* y off by one: off the curve */
			case 4: if (ch->own_point[ep->side ^ 1]) memcpy(pt, ch->own_point[ep->side ^ 1], 2 * fl); break; /* the receiver's own long-term point */
			case 5: /* the negated point (x, p - y): on the curve, different */
				if (ch->curve_p && !ch->xonly)
				{
					size_t i;
					unsigned borrow = 0;
					for (i = 0; i < fl; ++i)
					{
						unsigned d = (unsigned)ch->curve_p[i] - pt[fl + i] - borrow;
						pt[fl + i] = (octet)d, borrow = (d >> 8) & 1;
					}
				}
				break;
			case 6: /* the base point G = (0, yG) */
				if (ch->curve_yG)
					memset(pt, 0, fl), memcpy(pt + fl, ch->curve_yG, fl);
				break;
			case 7: /* reflection: the receiver's own first ephemeral point */
				if (ch->loglen[dir ^ 1][0] >= 2 * fl && ch->point_off[dir ^ 1][0] >= 0)
					memcpy(pt, ch->log[dir ^ 1][0] + ch->point_off[dir ^ 1][0], 2 * fl);
				break;
			case 8: /* coordinates swapped */
			{
				octet t[64];
				memcpy(t, pt, fl), memcpy(pt, pt + fl, fl), memcpy(pt + fl, t, fl);
				break;
			}
			}
			enqueue(q, tmp, len, count, memcmp(tmp, buf, count) != 0, 0);
		}
		else
			enqueue(q, tmp, len, count, 0, 0);
		return ERR_OK;
	}
	case F_TRUNC:
		if (count)
		{
			len = count - 1 - f->pos % count;
			enqueue(q, tmp, len, count, 1, 0);
		}
		else
			enqueue(q, tmp, len, count, 0, 0);
		return ERR_OK;
	case F_EXTEND:
	{
		unsigned k, n = 1 + f->pos % 20;
		for (k = 0; k < n; ++k)
			tmp[len++] = (octet)(f->val + k);
		enqueue(q, tmp, len, count, 2, 0); /* 2: altered only beyond orig_len */
		return ERR_OK;
	}
	case F_DUP:
		enqueue(q, tmp, len, count, 0, 0);
		enqueue(q, tmp, len, count, 0, 1);
		return ERR_OK;
	case F_REPLAY:
		if (ch->prev && ord < 3 && ch->prev->loglen[dir][ord] == count && count &&
			memcmp(ch->prev->log[dir][ord], buf, count))
			enqueue(q, ch->prev->log[dir][ord], count, count, 1, 0);
		else
			enqueue(q, tmp, len, count, 0, 0);
		return ERR_OK;
	}
	enqueue(q, tmp, len, count, 0, 0);
	return ERR_OK;
}

static int wait_msg(channel* ch, ch_queue* q, int side)
{
	unsigned waited = 0;
	while (q->head >= q->tail)
	{
		if (ch->done[side ^ 1] || waited >= CH_TIMEOUT)
			return 0;
		sk_sleep_until(sk_now() + 1);
		++waited;
	}
	return 1;
}

err_t ch_read(size_t* read, void* buf, size_t count, void* file)
{
	endpoint* ep = (endpoint*)file;
	channel* ch = ep->ch;
	int dir = ep->side == 0 ? 0 : 1; /* A reads what was sent towards A (dir 0) */
	ch_queue* q = &ch->dir[dir];
	ch_msg* m;
	ch_fault* f;
	size_t rem, n;
	*read = 0;
	sk_yield(61, 0);
	if (!wait_msg(ch, q, ep->side))
	{
		sk_count("probe.read_timed_out", 1);
		return ERR_TIMEOUT;
	}
	m = &q->q[q->head];
	/* read-side faults are attached to the ordinal of the message being read */
	f = find_fault(ch, dir, m->ord, 0);
	if (f && f->kind == F_READ_ERR && !f->fired)
	{
		count_fault(f);
		ch->liveness = 1;
		return ERR_FILE_READ;
	}
	rem = m->len - m->off;
	n = count < rem ? count : rem;
	if (f && f->kind == F_FRAGMENT && n > 1)
	{
		size_t k = 1 + (f->pos + m->frag * 7) % (n > 300 ? 300 : n);
		if (k < n)
		{
			n = k, ++m->frag;
			count_fault(f);
			/* a reader that does not look at the returned count works on a partly stale buffer.
			   Nothing on the wire was altered, so this is a delivery (liveness) fault: the run may
			   fail, and if the stale octets happen to match (1/256 for a 7-of-8 octet tag) it may
			   even succeed - with the right key */
			if (!(ch->fragment_honest & (1 << (dir * 4 + m->ord))))
				ch->liveness = 1;
			sk_count("probe.short_read_delivered", 1);
		}
	}
	memcpy(buf, m->data + m->off, n);
	m->off += n;
	*read = n;
	if (m->altered == 2)
	{
		/* extension: the reader is affected only if appended octets reach it */
		if (m->off > m->orig_len)
			ch->tampered = 1;
	}
	else if (m->altered || m->dup)
		ch->tampered = 1;
	if (n < rem && n < count)
		return ERR_OK; /* short read: more of this message is still to come */
	if (count > rem)
	{
		++q->head; /* end of message reached: fewer than count octets */
		return ERR_MAX;
	}
	if (m->off == m->len)
		++q->head; /* fully consumed: left silently */
	return ERR_OK;
}

err_t ch_send_msg(endpoint* ep, const octet* buf, size_t len)
{
	size_t w;
	return ch_write(&w, buf, len, ep);
}

err_t ch_recv_msg(endpoint* ep, octet* buf, size_t* len, size_t max)
{
	/* a step-driver host knows message boundaries: read until the end of the message */
	size_t got = 0, r;
	err_t code;
	for (;;)
	{
		code = ch_read(&r, buf + got, max + 1 - got, ep);
		got += r;
		if (code == ERR_MAX)
			break;
		if (code != ERR_OK)
			return code;
		if (got > max)
			return ERR_BAD_LENGTH; /* longer than any legal message */
		if (r == 0)
			return ERR_FILE_READ;
	}
	*len = got;
	return ERR_OK;
}

void tape_gen(void* buf, size_t count, void* state)
{
	tape_t* t = (tape_t*)state;
	++t->calls;
	if (t->mode == 3 || (t->mode == 1 && t->calls <= 2))
		memset(buf, 0, count);
	else if (t->mode == 2 && t->calls <= 2)
		memset(buf, 0xFF, count);
	else
		sk_bytes(&t->r, buf, count);
	if (t->flip_call && t->calls == t->flip_call && count)
		((octet*)buf)[0] ^= 1;
}
