/* C04: bake BMQV/BSTS/BPACE and btok BAUTH between two simulated parties.
   Honest runs must agree on one key; tampered runs never do (DESIGN.md C04).
   alloc_mode: per-party allocation-fault enumeration inside the protocols (C09). */
#include "proto.h"
#include <stdio.h>
#include "bee2/core/mem.h"
#include "bee2/crypto/bake.h"
#include "bee2/crypto/belt.h"
#include "bee2/crypto/btok.h"

enum { P_BMQV, P_BSTS, P_BPACE, P_BAUTH };
static const char* PN[] = { "BMQV", "BSTS", "BPACE", "BAUTH" };
static const size_t LV[3] = { 128, 192, 256 };

typedef struct {
	int proto, kca, kcb, mode[2], tape_mode[2], mismatch;
	int adv;                  /* -1: both parties run the library; 0/1: that side is the adversary of run_bake_adv */
	int pin;                  /* each certificate carries its own validator, which accepts that certificate only */
	size_t l, cert_pref[2], hello_len[2], pwd_len;
	int hello_null[2];
	octet hello[2][100], pwd[2][40];
	octet priv[2][64], pub[2][128];
	octet certdata[2][1400];
	size_t certlen[2];
	bign_params params[1];
} cfg_t;

typedef struct {
	int side;
	bake_settings st;
	bake_cert cert, peer;
	const octet* priv;
	const octet* pwd;
	size_t pwd_len;
	tape_t tape;
	endpoint ep;
	octet key[32];
	err_t rc;
	int accepted, finished;
	const char* cur_call;
	int alloc_failed;         /* an allocation failed during the current library call */
	long allocs;              /* allocations made by this party so far */
	long fail_at;             /* fail this party's k-th allocation (0 = none) */
	const char* ignored_in;   /* library call that returned ERR_OK although an allocation failed in it */
	const char* failed_call;
} party;

static cfg_t CFG;
static octet* EXACT_IN[2];   /* the message a party is working on, in a block of exactly its length */
static party PT[2];
static unsigned TAPE_FLIP[2];   /* run_bake_tape: invert the lowest bit of that draw of that party */
static channel CHS[2];
static sk_result* OUT;
static const sk_mask* MASK;
static int SESSION; /* 0 faulted, 1 recovery */
static int c15_only;

static err_t certval(octet* pubkey, const bign_params* params, const octet* data, size_t len)
{
	/* a strict validator: it relies on being handed the long-term parameters of the session,
	   all of them (bake.h), not only the level */
	if (memcmp(params, CFG.params, sizeof(bign_params)) != 0)
		return ERR_BAD_PARAMS;
	if (len < params->l / 2)
		return ERR_BAD_CERT;
	if (pubkey)
		memcpy(pubkey, data + (len - params->l / 2), params->l / 2);
	return ERR_OK;
}

/* bake.h: a certificate comes with its own validator, and the validators of one's own and of the
   peer's certificate may differ.  In a third of the sessions each certificate gets a validator
   that knows exactly that certificate (a pinned trust store): applying the validator of the wrong
   certificate - one's own to the peer's certificate - then rejects an honest peer. */
static err_t certval_pin(int s, octet* pubkey, const bign_params* params, const octet* data, size_t len)
{
	if (len != CFG.certlen[s] || memcmp(data, CFG.certdata[s], len) != 0)
		return ERR_BAD_CERT;
	sk_count("probe.pinned_validator_accepted", 1);
	return certval(pubkey, params, data, len);
}
static err_t certval_pin0(octet* pubkey, const bign_params* params, const octet* data, size_t len)
{
	return certval_pin(0, pubkey, params, data, len);
}
static err_t certval_pin1(octet* pubkey, const bign_params* params, const octet* data, size_t len)
{
	return certval_pin(1, pubkey, params, data, len);
}
#define VAL_OF(s) (CFG.pin ? ((s) ? certval_pin1 : certval_pin0) : certval)

/* allocation accounting per party (heap filter) */
static int heap_filter(size_t n, int op)
{
	int s = sk_self();
	(void)n, (void)op;
	if (s < 0 || s > 1)
		return 0;
	++PT[s].allocs;
	if (PT[s].fail_at && PT[s].allocs == PT[s].fail_at)
	{
		PT[s].alloc_failed = 1;
		sk_count("fault.party_alloc_failed", 1);
		return 1;
	}
	return 0;
}

#define CALL(p, NAME, EXPR)\
	do {\
		err_t c_;\
		(p)->cur_call = NAME, (p)->alloc_failed = 0;\
		c_ = (EXPR);\
		if ((p)->alloc_failed && c_ == ERR_OK && !(p)->ignored_in)\
			(p)->ignored_in = NAME;\
		if (c_ != ERR_OK) { (p)->rc = c_; (p)->failed_call = NAME; return; }\
	} while (0)

/* ------------------------------------------------------------ Run drivers */
static void party_run(party* p)
{
	cfg_t* c = &CFG;
	int a = p->side == 0;
	switch (c->proto)
	{
	case P_BMQV:
		if (a)
			CALL(p, "bakeBMQVRunA", bakeBMQVRunA(p->key, c->params, &p->st, p->priv, &p->cert, &p->peer, ch_read, ch_write, &p->ep));
		else
			CALL(p, "bakeBMQVRunB", bakeBMQVRunB(p->key, c->params, &p->st, p->priv, &p->cert, &p->peer, ch_read, ch_write, &p->ep));
		break;
	case P_BSTS:
		if (a)
			CALL(p, "bakeBSTSRunA", bakeBSTSRunA(p->key, c->params, &p->st, p->priv, &p->cert, VAL_OF(p->side ^ 1), ch_read, ch_write, &p->ep));
		else
			CALL(p, "bakeBSTSRunB", bakeBSTSRunB(p->key, c->params, &p->st, p->priv, &p->cert, VAL_OF(p->side ^ 1), ch_read, ch_write, &p->ep));
		break;
	case P_BPACE:
		if (a)
			CALL(p, "bakeBPACERunA", bakeBPACERunA(p->key, c->params, &p->st, p->pwd, p->pwd_len, ch_read, ch_write, &p->ep));
		else
			CALL(p, "bakeBPACERunB", bakeBPACERunB(p->key, c->params, &p->st, p->pwd, p->pwd_len, ch_read, ch_write, &p->ep));
		break;
	}
	p->accepted = 1;
}

/* ----------------------------------------------------------- step drivers */
static octet INB[2][CH_MAXMSG + 8], OUTB[2][CH_MAXMSG + 8];

/* a received message is handed to the step function in a block of exactly its length: a step
   that reads a fixed-size field out of a shorter message leaves the block */
static octet* exact_in(int side, const octet* msg, size_t len)
{
	if (EXACT_IN[side])
		sk_free(EXACT_IN[side]);
	EXACT_IN[side] = (octet*)sk_alloc(len ? len : 1);
	memcpy(EXACT_IN[side], msg, len);
	return EXACT_IN[side];
}
#define RECV(p, buf, lenp, want, exact)\
	do {\
		err_t c_ = ch_recv_msg(&(p)->ep, INB[(p)->side], lenp, CH_MAXMSG - 64);\
		if (c_ != ERR_OK) { (p)->rc = c_; (p)->failed_call = "receive"; return; }\
		if ((exact) && *(lenp) != (want)) { (p)->rc = ERR_BAD_LENGTH; (p)->failed_call = "receive(length)"; return; }\
		buf = exact_in((p)->side, INB[(p)->side], *(lenp));\
	} while (0)
#define SEND(p, buf, len)\
	do {\
		err_t c_ = ch_send_msg(&(p)->ep, buf, len);\
		if (c_ != ERR_OK) { (p)->rc = c_; (p)->failed_call = "send"; return; }\
	} while (0)

static void party_steps(party* p)
{
	cfg_t* c = &CFG;
	int a = p->side == 0;
	size_t l = c->l, len = 0;
	octet* in = INB[p->side];
	octet* out = OUTB[p->side];
	void* st;
	switch (c->proto)
	{
	case P_BMQV:
		st = sk_alloc(bakeBMQV_keep(l));
		CALL(p, "bakeBMQVStart", bakeBMQVStart(st, c->params, &p->st, p->priv, &p->cert));
		if (!a)
		{
			CALL(p, "bakeBMQVStep2", bakeBMQVStep2(out, st));
			SEND(p, out, l / 2);
			RECV(p, in, &len, l / 2 + (c->kca ? 8u : 0), 1);
			CALL(p, "bakeBMQVStep4", bakeBMQVStep4(out, in, &p->peer, st));
			if (c->kcb)
				SEND(p, out, 8);
		}
		else
		{
			RECV(p, in, &len, l / 2, 1);
			CALL(p, "bakeBMQVStep3", bakeBMQVStep3(out, in, &p->peer, st));
			SEND(p, out, l / 2 + (c->kca ? 8u : 0));
			if (c->kcb)
			{
				RECV(p, in, &len, 8, 1);
				CALL(p, "bakeBMQVStep5", bakeBMQVStep5(in, st));
			}
		}
		CALL(p, "bakeBMQVStepG", bakeBMQVStepG(p->key, st));
		break;
	case P_BSTS:
		st = sk_alloc(bakeBSTS_keep(l));
		CALL(p, "bakeBSTSStart", bakeBSTSStart(st, c->params, &p->st, p->priv, &p->cert));
		if (!a)
		{
			CALL(p, "bakeBSTSStep2", bakeBSTSStep2(out, st));
			SEND(p, out, l / 2);
			RECV(p, in, &len, 0, 0);
			CALL(p, "bakeBSTSStep4", bakeBSTSStep4(out, in, len, VAL_OF(p->side ^ 1), st));
			SEND(p, out, l / 4 + p->cert.len + 8);
		}
		else
		{
			RECV(p, in, &len, l / 2, 1);
			CALL(p, "bakeBSTSStep3", bakeBSTSStep3(out, in, st));
			SEND(p, out, 3 * l / 4 + p->cert.len + 8);
			RECV(p, in, &len, 0, 0);
			CALL(p, "bakeBSTSStep5", bakeBSTSStep5(in, len, VAL_OF(p->side ^ 1), st));
		}
		CALL(p, "bakeBSTSStepG", bakeBSTSStepG(p->key, st));
		break;
	case P_BPACE:
		st = sk_alloc(bakeBPACE_keep(l));
		CALL(p, "bakeBPACEStart", bakeBPACEStart(st, c->params, &p->st, p->pwd, p->pwd_len));
		if (!a)
		{
			CALL(p, "bakeBPACEStep2", bakeBPACEStep2(out, st));
			SEND(p, out, l / 8);
			RECV(p, in, &len, 5 * l / 8, 1);
			CALL(p, "bakeBPACEStep4", bakeBPACEStep4(out, in, st));
			SEND(p, out, l / 2 + (c->kcb ? 8u : 0));
			if (c->kca)
			{
				RECV(p, in, &len, 8, 1);
				CALL(p, "bakeBPACEStep6", bakeBPACEStep6(in, st));
			}
		}
		else
		{
			RECV(p, in, &len, l / 8, 1);
			CALL(p, "bakeBPACEStep3", bakeBPACEStep3(out, in, st));
			SEND(p, out, 5 * l / 8);
			RECV(p, in, &len, l / 2 + (c->kcb ? 8u : 0), 1);
			CALL(p, "bakeBPACEStep5", bakeBPACEStep5(out, in, st));
			if (c->kca)
				SEND(p, out, 8);
		}
		CALL(p, "bakeBPACEStepG", bakeBPACEStepG(p->key, st));
		break;
	default: /* BAUTH: A = terminal, B = token */
		if (!a)
		{
			st = sk_alloc(btokBAuthCT_keep(l));
			CALL(p, "btokBAuthCTStart", btokBAuthCTStart(st, c->params, &p->st, p->priv, &p->cert));
			CALL(p, "btokBAuthCTStep2", btokBAuthCTStep2(out, &p->peer, st));
			SEND(p, out, 5 * l / 8 + 16);
			RECV(p, in, &len, 8 + (c->kcb ? 16u : 0), 1);
			CALL(p, "btokBAuthCTStep4", btokBAuthCTStep4(out, in, st));
			if (c->kcb)
				SEND(p, out, l / 4 + p->cert.len + 8);
			CALL(p, "btokBAuthCTStepG", btokBAuthCTStepG(p->key, st));
		}
		else
		{
			st = sk_alloc(btokBAuthT_keep(l));
			CALL(p, "btokBAuthTStart", btokBAuthTStart(st, c->params, &p->st, p->priv, &p->cert));
			RECV(p, in, &len, 5 * l / 8 + 16, 1);
			CALL(p, "btokBAuthTStep3", btokBAuthTStep3(out, in, st));
			SEND(p, out, 8 + (c->kcb ? 16u : 0));
			if (c->kcb)
			{
				RECV(p, in, &len, 0, 0);
				CALL(p, "btokBAuthTStep5", btokBAuthTStep5(in, len, VAL_OF(p->side ^ 1), st));
			}
			CALL(p, "btokBAuthTStepG", btokBAuthTStepG(p->key, st));
		}
		break;
	}
	p->accepted = 1;
}


/* ------------------------------------------------------------- adversary */
/* A peer that does not know the password (BPACE).  It cannot form a valid point
   from the password, but if the victim forgot to check that the received point
   lies on the curve it can send (x, 0): on the curve y^2 = x^3 + a x + b' that
   this point defines it has order 2, so the victim's product u * (x, 0) is the
   point itself whenever its ephemeral scalar u is odd - a value the adversary
   knows.  It derives K0, K1 and its confirmation tag from that guess exactly as
   the standard prescribes.  On a correct library every such session ends with
   ERR_BAD_POINT at the victim. */
static octet ADV_K0[32];
static int adv_sent;
static void party_adversary(party* p)
{
	cfg_t* c = &CFG;
	int a = p->side == 0;
	size_t l = c->l, no = l / 4, len = 0;
	octet* in = INB[p->side];
	octet* out = OUTB[p->side];
	static octet hst[4096];
	octet X[64], Y[32], K1[32], lvl[12], hdr[16], blk[16];
	const octet* vax;
	const octet* vbx;
	sk_rng* r = &p->tape.r;
	if (beltHash_keep() > sizeof(hst))
		return;
	/* the point (x, 0), x < p */
	sk_bytes(r, X, no);
	X[no - 1] &= 0x7F;
	if (sk_chance(r, 1, 8))
		memset(X, 0, no);
	if (!a)
	{
		/* as B: M1 = Yb (anything), M3 = Vb' [|| Tb] */
		sk_bytes(r, out, l / 8);
		SEND(p, out, l / 8);
		RECV(p, in, &len, 5 * l / 8, 1);
		vax = in + l / 8, vbx = X;
	}
	else
	{
		/* as A: M2 = Ya (anything) || Va', M4 = Ta */
		RECV(p, in, &len, l / 8, 1);
		sk_bytes(r, out, l / 8);
		memcpy(out + l / 8, X, no), memset(out + l / 8 + no, 0, no);
		SEND(p, out, 5 * l / 8);
		adv_sent = 1;
		RECV(p, in, &len, l / 2 + (c->kcb ? 8u : 0), 1);
		vax = X, vbx = in;
	}
	/* Y <- beltHash(<K>_2l || <Va>_2l || <Vb>_2l || helloa || hellob) with K = (x, 0) */
	beltHashStart(hst);
	beltHashStepH(X, no, hst);
	beltHashStepH(vax, no, hst);
	beltHashStepH(vbx, no, hst);
	if (p->st.helloa)
		beltHashStepH(p->st.helloa, p->st.helloa_len, hst);
	if (p->st.hellob)
		beltHashStepH(p->st.hellob, p->st.hellob_len, hst);
	beltHashStepG(Y, hst);
	memset(lvl, 0xFF, 12), memset(hdr, 0, 16);
	beltKRP(ADV_K0, 32, Y, 32, lvl, hdr);
	hdr[0] = 1;
	beltKRP(K1, 32, Y, 32, lvl, hdr);
	if (!a)
	{
		memcpy(out, X, no), memset(out + no, 0, no);
		if (c->kcb)
		{
			memset(blk, 0xFF, 16);
			beltMAC(out + 2 * no, blk, 16, K1, 32);
		}
		SEND(p, out, l / 2 + (c->kcb ? 8u : 0));
		adv_sent = 1;
		if (c->kca)
			RECV(p, in, &len, 8, 1);
	}
	else if (c->kca)
	{
		memset(blk, 0, 16);
		beltMAC(out, blk, 16, K1, 32);
		SEND(p, out, 8);
	}
	memcpy(p->key, ADV_K0, 32);
	p->accepted = 1;
}

static void party_main(void* arg)
{
	party* p = (party*)arg;
	if (CFG.adv == p->side)
		party_adversary(p);
	else if (CFG.mode[p->side] == 0 && CFG.proto != P_BAUTH)
		party_run(p);
	else
		party_steps(p);
	p->finished = 1;
	p->ep.ch->done[p->side] = 1;
}

/* ------------------------------------------------------------ generation */
static size_t msg_len(int dir, int ord)
{
	/* honest length of message (dir, ord); dir 0 = to A */
	cfg_t* c = &CFG;
	size_t l = c->l;
	switch (c->proto)
	{
	case P_BMQV:
		return dir == 0 ? (ord == 0 ? l / 2 : 8) : l / 2 + (c->kca ? 8u : 0);
	case P_BSTS:
		return dir == 0 ? (ord == 0 ? l / 2 : l / 4 + c->certlen[1] + 8) : 3 * l / 4 + c->certlen[0] + 8;
	case P_BPACE:
		return dir == 0 ? (ord == 0 ? l / 8 : l / 2 + (c->kcb ? 8u : 0)) : (ord == 0 ? 5 * l / 8 : 8);
	default:
		return dir == 0 ? (ord == 0 ? 5 * l / 8 + 16 : l / 4 + c->certlen[1] + 8) : 8 + (c->kcb ? 16u : 0);
	}
}

static int msg_exists(int dir, int ord)
{
	cfg_t* c = &CFG;
	switch (c->proto)
	{
	case P_BMQV: return dir == 0 ? (ord == 0 || (ord == 1 && c->kcb)) : ord == 0;
	case P_BSTS: return dir == 0 ? ord < 2 : ord == 0;
	case P_BPACE: return dir == 0 ? ord < 2 : (ord == 0 || (ord == 1 && c->kca));
	default: return dir == 0 ? (ord == 0 || (ord == 1 && c->kcb)) : ord == 0;
	}
}

static void gen_cfg(sk_rng* r, int alloc_mode)
{
	cfg_t* c = &CFG;
	unsigned x = sk_below(r, 8);
	int s;
	tape_t setup;
	memset(c, 0, sizeof(*c));
	c->adv = -1;
	c->proto = (int)sk_below(r, 4);
	c->l = LV[x < 5 ? 0 : x < 7 ? 1 : 2];
	b2_params(c->params, c->l / 4);
	c->kca = (int)sk_below(r, 2), c->kcb = (int)sk_below(r, 2);
	if (c->proto == P_BSTS)
		c->kca = c->kcb = 1;
	if (c->proto == P_BAUTH)
		c->kca = 1;
	sk_rng_seed(&setup.r, sk_u64(r)), setup.mode = 0, setup.calls = 0, setup.flip_call = 0;
	for (s = 0; s < 2; ++s)
	{
		c->mode[s] = (int)sk_below(r, 2);
		switch (sk_below(r, 4))
		{
		case 0: c->hello_null[s] = 1; break;
		case 1: c->hello_len[s] = 0; break;
		default: c->hello_len[s] = 1 + sk_below(r, 100); break;
		}
		sk_bytes(r, c->hello[s], sizeof(c->hello[s]));
		c->tape_mode[s] = sk_chance(r, 1, 6) ? (int)(1 + sk_below(r, alloc_mode ? 2 : 3)) : 0;   /* 3: a dead generator (all zero) */
		b2_keypair(c->priv[s], c->pub[s], c->l / 4, tape_gen, &setup);
		/* certificate: arbitrary prefix || public key */
		switch (sk_below(r, 6))
		{
		case 0: c->cert_pref[s] = 0; break;
		case 1: /* |M2| resp. |M3| an exact multiple of 512 */
		{
			size_t fixed = (s == 0 ? 3 * c->l / 4 : c->l / 4) + 8 + c->l / 2;
			c->cert_pref[s] = (512 - fixed % 512) % 512 + (sk_chance(r, 1, 3) ? 512 : 0);
			break;
		}
		case 2: c->cert_pref[s] = 500 + sk_below(r, 700); break; /* several 512-octet chunks */
		default: c->cert_pref[s] = sk_below(r, 120); break;
		}
		sk_bytes(r, c->certdata[s], c->cert_pref[s]);
		memcpy(c->certdata[s] + c->cert_pref[s], c->pub[s], c->l / 2);
		c->certlen[s] = c->cert_pref[s] + c->l / 2;
	}
	c->pwd_len = sk_below(r, 40);
	sk_bytes(r, c->pwd[0], 40);
	memcpy(c->pwd[1], c->pwd[0], 40);
	/* inconsistent configuration of the two sides */
	c->mismatch = (!alloc_mode && sk_chance(r, 1, 8)) ? (int)(1 + sk_below(r, 6)) : 0;
	if (c->mismatch >= 5 && c->proto == P_BPACE)
		c->mismatch = 2; /* BPACE has no certificates or private keys */
	if (c->mismatch == 6 && c->proto == P_BAUTH && !c->kcb)
		c->mismatch = 2; /* without kcb the token is not authenticated: its private key is never used */
	if (c->mismatch == 4 && (c->proto != P_BMQV || c->cert_pref[0] == 0))
		c->mismatch = 2; /* certificate data enters the key derivation in BMQV only */
	if (c->mismatch == 3 && c->proto != P_BMQV && c->proto != P_BAUTH)
		c->mismatch = 2; /* certificates travel inside BSTS messages; BPACE has none */
	{
		/* drawn from a copy of the generator: the sessions of a seed stay what they were */
		sk_rng t = *r;
		c->pin = sk_below(&t, 3) == 0;
	}
}

static void setup_party(int s, uint64_t tape_seed, int apply_mismatch)
{
	cfg_t* c = &CFG;
	party* p = &PT[s];
	long fail_at = p->fail_at;
	memset(p, 0, sizeof(*p));
	p->fail_at = fail_at;
	p->side = s;
	EXACT_IN[s] = 0; /* (the arena was reset: blocks of the previous session are gone) */
	p->st.kca = c->kca, p->st.kcb = c->kcb;
	p->st.helloa = c->hello_null[0] ? 0 : c->hello[0], p->st.helloa_len = c->hello_null[0] ? 0 : c->hello_len[0];
	p->st.hellob = c->hello_null[1] ? 0 : c->hello[1], p->st.hellob_len = c->hello_null[1] ? 0 : c->hello_len[1];
	p->st.rng = tape_gen, p->st.rng_state = &p->tape;
	sk_rng_seed(&p->tape.r, tape_seed), p->tape.mode = c->tape_mode[s], p->tape.calls = 0, p->tape.flip_call = TAPE_FLIP[s];
	p->cert.data = c->certdata[s], p->cert.len = c->certlen[s], p->cert.val = VAL_OF(s);
	p->peer.data = c->certdata[s ^ 1], p->peer.len = c->certlen[s ^ 1], p->peer.val = VAL_OF(s ^ 1);
	p->priv = c->priv[s];
	p->pwd = c->pwd[s], p->pwd_len = c->pwd_len;
	p->ep.side = s;
	if (apply_mismatch)
		switch (c->mismatch)
		{
		case 1:
			if (c->proto == P_BPACE)
			{
				/* the two sides know different passwords */
				static octet other[41];
				if (s == 1)
				{
					memcpy(other, c->pwd[0], 40);
					other[c->pwd_len ? sk_below(&p->tape.r, (uint32_t)c->pwd_len) : 0] ^= 1;
					p->pwd = other;
					if (c->pwd_len == 0)
						p->pwd_len = 1;
				}
			}
			else if (s == 0)
				p->priv = c->priv[1]; /* A's private key does not match A's certificate */
			break;
		case 2:
			if (s == 1)
			{
				/* B believes A's hello is something else */
				static octet hh[4] = { 1, 2, 3, 4 };
				p->st.helloa = hh, p->st.helloa_len = 4;
			}
			break;
		case 3:
			if (s == 1 && (c->proto == P_BMQV || c->proto == P_BAUTH))
				p->peer = PT[1].cert; /* B was given the wrong certificate for A (its own) */
			break;
		case 4:
			if (s == 1)
			{
				/* B holds another certificate for A: same public key, different data */
				static octet other_cert[1400];
				memcpy(other_cert, c->certdata[0], c->certlen[0]);
				other_cert[sk_below(&p->tape.r, (uint32_t)c->cert_pref[0])] ^= 1;
				p->peer.data = other_cert;
			}
			break;
		case 6:
			/* B's private key does not match B's certificate (in BAUTH: a token that cannot
			   prove possession of the certified key) */
			if (s == 1 && c->proto != P_BPACE)
				p->priv = c->priv[0];
			break;
		case 5:
			/* a certificate the validation callback rejects (too short to hold a public key):
			   the peer's one where B was given it beforehand, B's own one otherwise */
			if (s == 1)
			{
				if (c->proto == P_BMQV || c->proto == P_BAUTH)
					p->peer.len = c->l / 2 - 1;
				else
					p->cert.len = c->l / 2 - 1;
			}
			break;
		}
}

/* ---------------------------------------------------------------- faults */
static void gen_faults(sk_rng* r, channel* ch)
{
	unsigned nf = sk_chance(r, 1, 6) ? 0 : sk_chance(r, 1, 8) ? 2 : 1, i;
	ch->nfaults = 0;
	for (i = 0; i < nf; ++i)
	{
		ch_fault* f = &ch->faults[ch->nfaults];
		int tries = 0;
		do
			f->dir = (int)sk_below(r, 2), f->ord = (int)sk_below(r, 2);
		while (!msg_exists(f->dir, f->ord) && ++tries < 20);
		if (!msg_exists(f->dir, f->ord))
			continue;
		f->kind = (int)(1 + sk_below(r, F_NKINDS - 1));
		f->pos = (unsigned)sk_below(r, 1u << 20), f->val = (unsigned)sk_below(r, 1u << 20);
		f->param = (unsigned)sk_below(r, 1u << 16);
		f->fired = 0;
		f->idx = (unsigned)ch->nfaults;
		++ch->nfaults;
	}
}

/* ------------------------------------------------------------ one session */
static int run_session(channel* ch, uint64_t sched_seed, int strategy)
{
	sk_sched_cfg sc;
	int rc;
	sc.strategy = strategy, sc.pct_depth = 2, sc.max_steps = 4000;
	sk_sched_init(sched_seed, &sc);
	PT[0].ep.ch = PT[1].ep.ch = ch;
	sk_heap_arm();
	sk_spawn(party_main, &PT[0]);
	sk_spawn(party_main, &PT[1]);
	rc = sk_sched_run();
	sk_heap_disarm();
	sk_count("steps", sk_steps());
	sk_sched_cleanup();
	return rc;
}

static void describe(const char* what)
{
	cfg_t* c = &CFG;
	sk_text(OUT, "%s: %s l=%u kca=%d kcb=%d A=%s B=%s hello=%s%u/%s%u cert=%u/%u%s tapes=%d/%d mismatch=%d", what,
		PN[c->proto], (unsigned)c->l, c->kca, c->kcb, c->mode[0] && 1 ? "steps" : "Run", c->mode[1] ? "steps" : "Run",
		c->hello_null[0] ? "null:" : "", (unsigned)c->hello_len[0], c->hello_null[1] ? "null:" : "", (unsigned)c->hello_len[1],
		(unsigned)c->certlen[0], (unsigned)c->certlen[1], c->pin ? "(pinned validators)" : "", c->tape_mode[0], c->tape_mode[1], c->mismatch);
}

/* secrets must not be in released memory (feeds C15) */
static octet relbuf[1 << 20];
static size_t relfill;
static void on_release(void* p, size_t n, int kind)
{
	(void)kind;
	if (relfill + n <= sizeof(relbuf))
		memcpy(relbuf + relfill, p, n), relfill += n;
}

static int window_in(const octet* hay, size_t hn, const octet* nee, size_t nn)
{
	size_t i, q;
	for (i = 0; i + 8 <= nn; ++i)
	{
		/* 8 equal octets identify nothing (a block cleared with that constant would match) */
		for (q = 1; q < 8 && nee[i + q] == nee[i]; ++q);
		if (q < 8 && hn >= 8 && memmem(hay, hn, nee + i, 8))
			return 1;
	}
	return 0;
}

static int is_known_framing(void)
{
	/* known finding: bakeBSTSRunA/B cannot complete when |M2| or |M3| = 0 mod 512 */
	cfg_t* c = &CFG;
	if (c->proto != P_BSTS)
		return 0;
	if (c->mode[1] == 0 && msg_len(1, 0) % 512 == 0)
		return 1; /* B's driver reads M2 */
	if (c->mode[0] == 0 && msg_len(0, 1) % 512 == 0)
		return 1; /* A's driver reads M3 */
	return 0;
}

void run_bake(uint64_t seed, const sk_mask* mask, sk_result* out, int alloc_mode)
{
	sk_rng r;
	cfg_t* c = &CFG;
	uint64_t fill, ts[4], ss[2];
	int rc, strat, honest, s, k;
	long N[2] = { 0, 0 };
	OUT = out, MASK = mask;
	c15_only = !strcmp(sk_options.property, "C15");
	sk_rng_seed(&r, seed);
	gen_cfg(&r, alloc_mode);
	fill = sk_u64(&r);
	for (k = 0; k < 4; ++k)
		ts[k] = sk_u64(&r);
	ss[0] = sk_u64(&r), ss[1] = sk_u64(&r);
	strat = (int)sk_below(&r, 4);
	ch_init(&CHS[0], 0);
	if (!alloc_mode)
		gen_faults(&r, &CHS[0]);
	{
		int i, n = 0;
		for (i = 0; i < CHS[0].nfaults; ++i)
			if (sk_keep(mask, (unsigned)i))
				CHS[0].faults[n++] = CHS[0].faults[i];
		out->nops = (unsigned)CHS[0].nfaults + 1;
		CHS[0].nfaults = n;
		if (!sk_keep(mask, (unsigned)out->nops - 1))
			c->mismatch = 0;
	}
	if (c->proto == P_BAUTH)
		c->mode[0] = c->mode[1] = 1;
	describe(alloc_mode ? "allocation-fault session" : "session");
	for (k = 0; k < CHS[0].nfaults; ++k)
		sk_text(OUT, "  fault: %s on message %s#%d (pos=%u)", FAULT_NAME[CHS[0].faults[k].kind],
			CHS[0].faults[k].dir == 0 ? "to-A" : "to-B", CHS[0].faults[k].ord, CHS[0].faults[k].pos);
	sk_heap_filter = heap_filter;
	PT[0].fail_at = PT[1].fail_at = 0;

	if (alloc_mode)
	{
		/* baseline: count allocations per party */
		int pass, nel = 0;
		for (pass = 0;; ++pass)
		{
			int who = -1;
			long kk = 0;
			if (pass > 0)
			{
				/* enumerate (party, k) */
				long idx = pass - 1;
				if (idx < N[0]) who = 0, kk = idx + 1;
				else if (idx < N[0] + N[1]) who = 1, kk = idx - N[0] + 1;
				else break;
				if (!sk_keep(mask, (unsigned)idx))
					continue;
			}
			sk_heap_reset(fill);
			relfill = 0;
			PT[0].fail_at = who == 0 ? kk : 0, PT[1].fail_at = who == 1 ? kk : 0;
			setup_party(0, ts[0], 0), setup_party(1, ts[1], 0);
			ch_init(&CHS[0], 0);
			CHS[0].field_len = c->l / 4;
			if (c->proto == P_BSTS)
				CHS[0].fragment_honest = (1 << 4) | (1 << 1);
			rc = run_session(&CHS[0], ss[0], strat);
			if (sk_heap_exhausted()) { sk_fault(out, "arena exhausted"); return; }
			if (pass == 0)
			{
				N[0] = PT[0].allocs, N[1] = PT[1].allocs;
				out->nops = (unsigned)(N[0] + N[1]);
				sk_text(OUT, "  fault-free: A rc=%u (%ld allocations), B rc=%u (%ld allocations)", (unsigned)PT[0].rc, N[0], (unsigned)PT[1].rc, N[1]);
				if (rc != 0)
				{
					sk_violate(out, rc == 1 ? "deadlock" : "livelock", "honest session did not terminate");
					return;
				}
				if (is_known_framing())
				{
					sk_count("probe.bsts_512_multiple", 1);
					return; /* covered by the C04 known finding */
				}
				if (!PT[0].accepted || !PT[1].accepted || memcmp(PT[0].key, PT[1].key, 32))
				{
					sk_violate(out, "honest_run_failed", "%s: A rc=%u B rc=%u keys %s", PN[c->proto], (unsigned)PT[0].rc,
						(unsigned)PT[1].rc, memcmp(PT[0].key, PT[1].key, 32) ? "differ" : "equal");
					return;
				}
				if (sk_heap_live())
				{
					sk_violate(out, "leak:protocol", "%ld block(s) left after an honest session", sk_heap_live());
					return;
				}
				if (N[0] + N[1] > 4)
					sk_count("probe.bsts_multiblock_path", c->proto == P_BSTS && (N[0] > 1 || N[1] > 1));
				continue;
			}
			++nel;
			sk_text(OUT, "  fail allocation #%ld of party %c -> A rc=%u (%s) B rc=%u (%s) live=%ld", kk, who ? 'B' : 'A',
				(unsigned)PT[0].rc, PT[0].failed_call ? PT[0].failed_call : "-", (unsigned)PT[1].rc,
				PT[1].failed_call ? PT[1].failed_call : "-", sk_heap_live());
			sk_sig_add(sk_mix(((uint64_t)c->proto << 40) | ((uint64_t)c->l << 24) | ((uint64_t)who << 20) | (uint64_t)kk << 4 | (uint64_t)(c->mode[who]), 31));
			sk_dg_u64(&out->digest, PT[0].rc), sk_dg_u64(&out->digest, PT[1].rc);
			if (rc != 0)
			{
				sk_violate(out, rc == 1 ? "deadlock" : "livelock", "session with a failed allocation did not terminate");
				return;
			}
			if (PT[who].ignored_in)
			{
				char cls[96];
				snprintf(cls, sizeof(cls), "alloc_fail_ignored:%s", PT[who].ignored_in);
				sk_violate(out, cls, "%s returned ERR_OK although its allocation #%ld failed (party %c, %s l=%u)",
					PT[who].ignored_in, kk, who ? 'B' : 'A', PN[c->proto], (unsigned)c->l);
				return;
			}
			if (sk_heap_live())
			{
				char cls[96];
				snprintf(cls, sizeof(cls), "leak_on_alloc_fail:%s", PT[who].failed_call ? PT[who].failed_call : PN[c->proto]);
				sk_violate(out, cls, "%ld block(s) (%lu octets) left after allocation #%ld of party %c failed in %s",
					sk_heap_live(), (unsigned long)sk_heap_live_bytes(), kk, who ? 'B' : 'A',
					PT[who].failed_call ? PT[who].failed_call : "?");
				return;
			}
			if (PT[0].accepted && PT[1].accepted && memcmp(PT[0].key, PT[1].key, 32))
			{
				sk_violate(out, "disagree_after_alloc_fail", "both parties accepted with different keys");
				return;
			}
		}
		(void)nel;
		out->sig = 0;
		return;
	}

	/* ------------------------------------------------ C04: faulted session */
	sk_heap_reset(fill);
	relfill = 0;
	sk_heap_on_release(on_release);
	setup_party(0, ts[0], 1), setup_party(1, ts[1], 1);
	CHS[0].field_len = c->l / 4;
	CHS[0].curve_p = c->params->p;
	CHS[0].curve_yG = c->params->yG;
	CHS[0].own_point[0] = c->pub[0], CHS[0].own_point[1] = c->pub[1];
	/* where the curve point sits in each message: dir 0 = to A (M1, M3), dir 1 = to B (M2, M4) */
	switch (c->proto)
	{
	case P_BMQV: CHS[0].point_off[0][0] = 0, CHS[0].point_off[1][0] = 0; break;
	case P_BSTS: CHS[0].point_off[0][0] = 0, CHS[0].point_off[1][0] = 0; break;
	case P_BPACE: CHS[0].point_off[1][0] = (int)(c->l / 8), CHS[0].point_off[0][1] = 0, CHS[0].xonly = 1; break;
	default: CHS[0].point_off[0][0] = 0, CHS[0].xonly = 1; break;
	}
	if (c->proto == P_BSTS)
	{
		/* the Run drivers reassemble M2 and M3; so do the step-driver hosts */
		CHS[0].fragment_honest = (1 << 4) | (1 << 1);
	}
	/* step-driver hosts always reassemble */
	if (c->mode[0] || c->proto == P_BAUTH) CHS[0].fragment_honest |= (1 << 0) | (1 << 1);
	if (c->mode[1] || c->proto == P_BAUTH) CHS[0].fragment_honest |= (1 << 4) | (1 << 5);
	SESSION = 0;
	rc = run_session(&CHS[0], ss[0], strat);
	sk_heap_on_release(0);
	honest = !CHS[0].tampered && !CHS[0].liveness && !c->mismatch &&
		!(c->tape_mode[0] == 3 || c->tape_mode[1] == 3);
	sk_text(OUT, "  result: A %s rc=%u%s%s, B %s rc=%u%s%s; keys %s; channel tampered=%d liveness=%d",
		PT[0].accepted ? "accepts" : "fails", (unsigned)PT[0].rc, PT[0].failed_call ? " in " : "", PT[0].failed_call ? PT[0].failed_call : "",
		PT[1].accepted ? "accepts" : "fails", (unsigned)PT[1].rc, PT[1].failed_call ? " in " : "", PT[1].failed_call ? PT[1].failed_call : "",
		memcmp(PT[0].key, PT[1].key, 32) ? "differ" : "equal", CHS[0].tampered, CHS[0].liveness);
	sk_dg_u64(&out->digest, PT[0].rc), sk_dg_u64(&out->digest, PT[1].rc);
	sk_dg_add(&out->digest, PT[0].key, 32), sk_dg_add(&out->digest, PT[1].key, 32);
	{
		uint64_t sg = ((uint64_t)c->proto << 56) | ((uint64_t)(c->l / 64) << 52) | ((uint64_t)c->kca << 51) | ((uint64_t)c->kcb << 50) |
			((uint64_t)c->mode[0] << 49) | ((uint64_t)c->mode[1] << 48) | ((uint64_t)c->mismatch << 44);
		for (k = 0; k < CHS[0].nfaults; ++k)
			sg ^= sk_mix(((uint64_t)CHS[0].faults[k].kind << 8) | ((uint64_t)CHS[0].faults[k].dir << 4) | (uint64_t)CHS[0].faults[k].ord, 5);
		out->sig = sk_mix(sg, ((uint64_t)PT[0].accepted << 1) | (uint64_t)PT[1].accepted);
		out->nontrivial = 1;
	}
	if (sk_heap_exhausted()) { sk_fault(out, "arena exhausted"); return; }
	if (rc != 0)
	{
		sk_violate(out, rc == 1 ? "deadlock" : "livelock", "%s session did not terminate (parties hang)", PN[c->proto]);
		sk_restart_requested = 1;
		return;
	}
	if (sk_heap_overrun())
	{
		sk_violate(out, "overrun:protocol", "canary damaged during a %s session", PN[c->proto]);
		return;
	}
	/* released memory - and memory still allocated when the parties returned -
	   must not hold long-term or session secrets (C15) */
	sk_heap_scan_live(on_release);
	sk_count("released_octets", relfill);
	for (s = 0; s < 2; ++s)
	{
		const octet* sec[3];
		size_t sl[3];
		int q;
		sec[0] = c->priv[s], sl[0] = c->proto == P_BPACE ? 0 : c->l / 4;
		sec[1] = PT[s].pwd, sl[1] = c->proto == P_BPACE ? PT[s].pwd_len : 0;
		sec[2] = PT[s].key, sl[2] = PT[s].accepted ? 32 : 0;
		for (q = 0; q < 3; ++q)
			if (sl[q] >= 8 && window_in(relbuf, relfill, sec[q], sl[q]))
			{
				sk_violate(out, "secret_in_released_block:protocol", "a block released (or left allocated) during the %s session holds 8+ octets of party %c's %s",
					PN[c->proto], s ? 'B' : 'A', q == 0 ? "private key" : q == 1 ? "password" : "session key");
				return;
			}
	}
	if (c15_only)
	{
		sk_count("probe.protocol_sessions_scanned", 1);
		if (!honest)
			sk_count("probe.protocol_error_exit_scanned", 1);
		return; /* the C15 leg judges released memory only */
	}
	if (sk_heap_live())
	{
		char cls[96];
		snprintf(cls, sizeof(cls), "leak:%s", PT[0].failed_call ? PT[0].failed_call : PT[1].failed_call ? PT[1].failed_call : PN[c->proto]);
		sk_violate(out, cls, "%ld block(s) left allocated after the session (A rc=%u, B rc=%u)", sk_heap_live(), (unsigned)PT[0].rc, (unsigned)PT[1].rc);
		return;
	}
	if (honest)
	{
		sk_count("probe.honest_sessions", 1);
		if (c->tape_mode[0] || c->tape_mode[1])
			sk_count("probe.rejection_sampled", 1);
		if (c->proto == P_BSTS && (msg_len(1, 0) > 512 || msg_len(0, 1) > 512) && (c->mode[0] == 0 || c->mode[1] == 0))
			sk_count("probe.bsts_multiblock_path", 1);
		if (is_known_framing())
		{
			sk_count("probe.bsts_512_multiple", 1);
			if (!(PT[0].accepted && PT[1].accepted))
			{
				sk_violate(out, "bsts_run_driver_512_multiple",
					"honest BSTS through the Run driver(s) never completes: |M2|=%u |M3|=%u (A rc=%u, B rc=%u)",
					(unsigned)msg_len(1, 0), (unsigned)msg_len(0, 1), (unsigned)PT[0].rc, (unsigned)PT[1].rc);
				return;
			}
		}
		if (!PT[0].accepted || !PT[1].accepted)
		{
			sk_violate(out, "honest_run_failed", "%s l=%u kca=%d kcb=%d: A rc=%u in %s, B rc=%u in %s", PN[c->proto], (unsigned)c->l,
				c->kca, c->kcb, (unsigned)PT[0].rc, PT[0].failed_call ? PT[0].failed_call : "-", (unsigned)PT[1].rc,
				PT[1].failed_call ? PT[1].failed_call : "-");
			return;
		}
		if (memcmp(PT[0].key, PT[1].key, 32))
		{
			sk_violate(out, "honest_keys_differ", "%s: both parties returned ERR_OK but hold different keys", PN[c->proto]);
			return;
		}
	}
	else if (CHS[0].tampered || c->mismatch)
	{
		sk_count("probe.tampered_sessions", 1);
		if (PT[0].accepted && PT[1].accepted && !memcmp(PT[0].key, PT[1].key, 32))
		{
			sk_violate(out, "tampered_run_agreed", "%s l=%u: messages were altered (or the sides were configured inconsistently, mismatch=%d) and both parties accepted the same key",
				PN[c->proto], (unsigned)c->l, c->mismatch);
			return;
		}
		if ((c->kca || c->kcb) && PT[0].accepted && PT[1].accepted)
		{
			sk_violate(out, "tampered_run_confirmed", "%s l=%u kca=%d kcb=%d: altered run and no party that requires confirmation returned an error",
				PN[c->proto], (unsigned)c->l, c->kca, c->kcb);
			return;
		}
	}
	else
	{
		sk_count("probe.liveness_only_sessions", 1);
		/* nothing was altered: the session may fail, but two parties that both accept agree */
		if (PT[0].accepted && PT[1].accepted && memcmp(PT[0].key, PT[1].key, 32))
		{
			sk_violate(out, "honest_keys_differ", "%s: messages were delayed, fragmented or lost but not altered, both parties returned ERR_OK and hold different keys", PN[c->proto]);
			return;
		}
	}

	/* ------------------------------ recovery: bounded liveness once faults stop */
	{
		int save_tm0 = c->tape_mode[0], save_tm1 = c->tape_mode[1], save_mm = c->mismatch;
		c->mismatch = 0;
		if (c->tape_mode[0] == 3) c->tape_mode[0] = 0;
		if (c->tape_mode[1] == 3) c->tape_mode[1] = 0;
		setup_party(0, ts[2], 0), setup_party(1, ts[3], 0);
		ch_init(&CHS[1], &CHS[0]);
		CHS[1].fragment_honest = CHS[0].fragment_honest;
		SESSION = 1;
		rc = run_session(&CHS[1], ss[1], strat);
		c->tape_mode[0] = save_tm0, c->tape_mode[1] = save_tm1, c->mismatch = save_mm;
		sk_text(OUT, "  recovery session: A rc=%u B rc=%u keys %s", (unsigned)PT[0].rc, (unsigned)PT[1].rc,
			memcmp(PT[0].key, PT[1].key, 32) ? "differ" : "equal");
		sk_dg_u64(&out->digest, PT[0].rc), sk_dg_u64(&out->digest, PT[1].rc);
		if (rc != 0)
		{
			sk_violate(out, "no_recovery", "fault-free session after a faulted one did not terminate");
			sk_restart_requested = 1;
			return;
		}
		if (is_known_framing())
			return;
		if (!PT[0].accepted || !PT[1].accepted || memcmp(PT[0].key, PT[1].key, 32))
		{
			sk_violate(out, honest ? "honest_run_failed" : "no_recovery", "fault-free %s session with the same long-term keys failed: A rc=%u in %s, B rc=%u in %s",
				PN[c->proto], (unsigned)PT[0].rc, PT[0].failed_call ? PT[0].failed_call : "-", (unsigned)PT[1].rc, PT[1].failed_call ? PT[1].failed_call : "-");
			return;
		}
		if (sk_heap_live())
			sk_violate(out, "leak:protocol", "%ld block(s) left after the recovery session", sk_heap_live());
	}
}


/* ------------------------------------------------------------------------
   Single-octet sweep (C04 quantifier: "every single-octet alteration of every
   message M1..M4"): one run fixes a configuration and long-term keys from the
   seed and then alters, in turn, EVERY octet position of EVERY message of the
   protocol (one session per position).  Complete for the configuration drawn. */
void run_bake_sweep(uint64_t seed, const sk_mask* mask, sk_result* out)
{
	sk_rng r;
	cfg_t* c = &CFG;
	uint64_t fill, ts[2], ss;
	int strat, dir, ord;
	unsigned el = 0, sessions = 0;
	OUT = out, MASK = mask;
	c15_only = 0;
	sk_rng_seed(&r, seed);
	gen_cfg(&r, 1);
	/* quick tier: the smallest curve; short certificates keep M2/M3 of BSTS/BAUTH sweepable */
	if (!sk_options.tier && c->l != 128)
	{
		c->l = 128;
		b2_params(c->params, 32);
	}
	{
		int s2;
		tape_t setup;
		sk_rng_seed(&setup.r, sk_u64(&r)), setup.mode = 0, setup.calls = 0, setup.flip_call = 0;
		for (s2 = 0; s2 < 2; ++s2)
		{
			c->tape_mode[s2] = 0;
			b2_keypair(c->priv[s2], c->pub[s2], c->l / 4, tape_gen, &setup);
			c->cert_pref[s2] = sk_below(&r, 24);
			sk_bytes(&r, c->certdata[s2], c->cert_pref[s2]);
			memcpy(c->certdata[s2] + c->cert_pref[s2], c->pub[s2], c->l / 2);
			c->certlen[s2] = c->cert_pref[s2] + c->l / 2;
		}
	}
	if (c->proto == P_BAUTH)
		c->mode[0] = c->mode[1] = 1;
	fill = sk_u64(&r), ts[0] = sk_u64(&r), ts[1] = sk_u64(&r), ss = sk_u64(&r);
	strat = (int)sk_below(&r, 4);
	describe("single-octet sweep");
	sk_heap_filter = heap_filter;
	for (dir = 0; dir < 2; ++dir)
		for (ord = 0; ord < 2; ++ord)
		{
			size_t len, pos;
			if (!msg_exists(dir, ord))
				continue;
			len = msg_len(dir, ord);
			for (pos = 0; pos < len; ++pos, ++el)
			{
				channel* ch = &CHS[0];
				if (!sk_keep(mask, el))
					continue;
				sk_heap_reset(fill);
				PT[0].fail_at = PT[1].fail_at = 0;
				setup_party(0, ts[0], 0), setup_party(1, ts[1], 0);
				ch_init(ch, 0);
				ch->field_len = c->l / 4;
				ch->fragment_honest = 0xFF;
				ch->nfaults = 1;
				ch->faults[0].dir = dir, ch->faults[0].ord = ord, ch->faults[0].kind = F_CORRUPT1;
				ch->faults[0].pos = (unsigned)pos, ch->faults[0].val = (unsigned)sk_below(&r, 255);
				ch->faults[0].fired = 0;
				if (run_session(ch, ss, strat) != 0)
				{
					sk_violate(out, "deadlock", "sweep session did not terminate (message to-%c#%d, octet %u)", dir ? 'B' : 'A', ord, (unsigned)pos);
					sk_restart_requested = 1;
					return;
				}
				++sessions;
				sk_dg_u64(&out->digest, PT[0].rc), sk_dg_u64(&out->digest, PT[1].rc);
				if (!ch->tampered)
				{
					sk_fault(out, "sweep: the altered octet was never delivered (message to-%c#%d, octet %u)", dir ? 'B' : 'A', ord, (unsigned)pos);
					return;
				}
				if (PT[0].accepted && PT[1].accepted && !memcmp(PT[0].key, PT[1].key, 32))
				{
					sk_text(OUT, "  altered octet %u of message to-%c#%d: both accept, keys equal", (unsigned)pos, dir ? 'B' : 'A', ord);
					sk_violate(out, "tampered_run_agreed", "%s l=%u kca=%d kcb=%d: octet %u of the message to-%c#%d was altered and both parties accepted the same key",
						PN[c->proto], (unsigned)c->l, c->kca, c->kcb, (unsigned)pos, dir ? 'B' : 'A', ord);
					return;
				}
				if ((c->kca || c->kcb) && PT[0].accepted && PT[1].accepted)
				{
					sk_text(OUT, "  altered octet %u of message to-%c#%d: both accept", (unsigned)pos, dir ? 'B' : 'A', ord);
					sk_violate(out, "tampered_run_confirmed", "%s l=%u kca=%d kcb=%d: octet %u of the message to-%c#%d was altered and no confirming party returned an error",
						PN[c->proto], (unsigned)c->l, c->kca, c->kcb, (unsigned)pos, dir ? 'B' : 'A', ord);
					return;
				}
				if (sk_heap_live())
				{
					sk_violate(out, "leak:protocol", "%ld block(s) left after a tampered session (octet %u of message to-%c#%d)", sk_heap_live(), (unsigned)pos, dir ? 'B' : 'A', ord);
					return;
				}
			}
		}
	out->nops = el;
	sk_count("fault.corrupt1", sessions);
	sk_count("probe.sweep_sessions", sessions);
	sk_count("probe.sweep_configs_completed", 1);
	sk_text(OUT, "  %u positions swept, every altered session rejected or keys differ", sessions);
	out->sig = sk_mix(((uint64_t)c->proto << 24) | ((uint64_t)c->l << 8) | ((uint64_t)c->kca << 3) | ((uint64_t)c->kcb << 2) | ((uint64_t)c->mode[0] << 1) | (uint64_t)c->mode[1], 77);
	out->nontrivial = 1;
}


/* ------------------------------------------------------------------------
   C07 rider: fault-free sessions with exact-size states on the simulated heap,
   executed twice under different seeded heap garbage; return codes and keys of
   both parties must not depend on it. */
void run_bake_base(uint64_t seed, const sk_mask* mask, sk_result* out)
{
	sk_rng r;
	cfg_t* c = &CFG;
	uint64_t fill[2], ts[2], ss;
	int strat, v, pass, kca, kcb;
	err_t rc[3][2];
	octet keys[3][2][32];
	int acc[3][2];
	OUT = out, MASK = mask;
	c15_only = 0;
	sk_rng_seed(&r, seed);
	gen_cfg(&r, 1);
	if (c->proto == P_BAUTH)
		c->mode[0] = c->mode[1] = 1;
	fill[0] = sk_u64(&r), fill[1] = sk_u64(&r), ts[0] = sk_u64(&r), ts[1] = sk_u64(&r), ss = sk_u64(&r);
	strat = (int)sk_below(&r, 4);
	describe("fault-free session x3 (heap garbage A, garbage B, stale image of a sibling session)");
	sk_heap_filter = heap_filter;
	out->nops = 0;
	kca = c->kca, kcb = c->kcb;
	/* runs 0, 1: different seeded garbage.  Run 2: fresh blocks hold what a sibling
	   session - same keys and generator tapes, every key confirmation switched on -
	   left at the same place: the adversarial "garbage" of a long-lived process, in
	   which a field the protocol forgot to compute may happen to hold the right value */
	for (v = 0; v < 3; ++v)
		for (pass = (v == 2 ? 0 : 1); pass < 2; ++pass)
		{
			if (pass == 0)
			{
				sk_heap_reset(fill[0]);
				if (c->proto != P_BAUTH)
					c->kca = c->kcb = 1;
				else
					c->kcb = 1;
			}
			else
			{
				c->kca = kca, c->kcb = kcb;
				if (v < 2)
					sk_heap_reset(fill[v]);
				else
					sk_heap_reset_stale();
			}
			PT[0].fail_at = PT[1].fail_at = 0;
			setup_party(0, ts[0], 0), setup_party(1, ts[1], 0);
			ch_init(&CHS[0], 0);
			CHS[0].fragment_honest = 0xFF;
			if (run_session(&CHS[0], ss, strat) != 0)
			{
				c->kca = kca, c->kcb = kcb;
				sk_violate(out, "deadlock", "fault-free session did not terminate");
				sk_restart_requested = 1;
				return;
			}
			if (sk_heap_overrun())
			{
				sk_violate(out, "overrun:protocol", "canary damaged during a %s session", PN[c->proto]);
				return;
			}
			if (pass == 0)
				continue;
			rc[v][0] = PT[0].rc, rc[v][1] = PT[1].rc;
			acc[v][0] = PT[0].accepted, acc[v][1] = PT[1].accepted;
			memcpy(keys[v][0], PT[0].key, 32), memcpy(keys[v][1], PT[1].key, 32);
			sk_dg_u64(&out->digest, rc[v][0]), sk_dg_u64(&out->digest, rc[v][1]);
		}
	sk_count("calls", 1);
	sk_count("probe.protocol_sessions_twice", 1);
	if (is_known_framing())
		return;
	for (v = 1; v < 3; ++v)
		if (rc[0][0] != rc[v][0] || rc[0][1] != rc[v][1] || acc[0][0] != acc[v][0] || acc[0][1] != acc[v][1] ||
			(acc[0][0] && memcmp(keys[0][0], keys[v][0], 32)) || (acc[0][1] && memcmp(keys[0][1], keys[v][1], 32)))
		{
			sk_violate(out, "uninitialised_influence:protocol", "%s l=%u kca=%d kcb=%d: the outcome of a fault-free session changes with %s (A rc %u/%u, B rc %u/%u)",
				PN[c->proto], (unsigned)c->l, c->kca, c->kcb,
				v == 1 ? "the garbage in fresh heap memory" : "fresh memory holding the stale image of a sibling session",
				(unsigned)rc[0][0], (unsigned)rc[v][0], (unsigned)rc[0][1], (unsigned)rc[v][1]);
			return;
		}
	out->sig = sk_mix(((uint64_t)c->proto << 24) | ((uint64_t)c->l << 8) | ((uint64_t)c->kca << 3) | ((uint64_t)c->kcb << 2) | ((uint64_t)c->mode[0] << 1) | (uint64_t)c->mode[1], 78);
	out->nontrivial = 1;
}

/* ------------------------------------------------------------------------
   C15 for secrets the harness cannot name: the same session (same shape, same
   schedule, same heap garbage, same injected allocation failure) is executed with
   two unrelated sets of secrets - private keys, password, both generator tapes -
   and every block the library releases is snapshotted at the instant of release.
   Paired blocks must agree except where the differing octets are public in their
   own run: on the wire, in a certificate or in a hello message.  A decrypted
   message part, a derived key or an unreduced exponent that survives in released
   memory differs between the two runs and is in neither transcript. */
#define DF_MAXBLK 256
static struct { size_t off, n; int kind; } dfb[2][DF_MAXBLK];
static int dfn[2], dfv, df_over;
static octet dfbuf[2][1 << 19];
static size_t dffill[2];
static void on_release_diff(void* p, size_t n, int kind)
{
	if (dfn[dfv] >= DF_MAXBLK || dffill[dfv] + n > sizeof(dfbuf[0]))
	{
		df_over = 1;
		return;
	}
	dfb[dfv][dfn[dfv]].off = dffill[dfv], dfb[dfv][dfn[dfv]].n = n, dfb[dfv][dfn[dfv]].kind = kind;
	memcpy(dfbuf[dfv] + dffill[dfv], p, n);
	dffill[dfv] += n, ++dfn[dfv];
}

void run_bake_diff(uint64_t seed, const sk_mask* mask, sk_result* out)
{
	static octet corpus[2][24000];
	static const char* KN[3] = { "freed", "left behind by a moving realloc", "still allocated at return" };
	size_t cn[2];
	sk_rng r;
	cfg_t* c = &CFG;
	uint64_t fill, ts[2][2], ss, resec;
	int strat, v, who, b, d, o, s;
	long kk;
	err_t rc[2][2];
	int acc[2][2];
	OUT = out, MASK = mask;
	c15_only = 0;
	sk_rng_seed(&r, seed);
	gen_cfg(&r, 1);
	if (c->proto == P_BAUTH)
		c->mode[0] = c->mode[1] = 1;
	c->tape_mode[0] = c->tape_mode[1] = 0;
	fill = sk_u64(&r), ss = sk_u64(&r), resec = sk_u64(&r);
	for (v = 0; v < 2; ++v)
		ts[v][0] = sk_u64(&r), ts[v][1] = sk_u64(&r);
	strat = (int)sk_below(&r, 4);
	/* error exits: one allocation of one party fails (the same one in both runs) */
	who = -1, kk = 0;
	if (sk_chance(&r, 1, 2))
		who = (int)sk_below(&r, 2), kk = 1 + (long)sk_below(&r, 4);
	describe("session x2 (two unrelated sets of secrets)");
	if (who >= 0)
		sk_text(OUT, "  allocation #%ld of party %c fails in both runs", kk, who ? 'B' : 'A');
	sk_heap_filter = heap_filter;
	out->nops = 0;
	df_over = 0;
	for (v = 0; v < 2; ++v)
	{
		if (v == 1)
		{
			/* same shape, other secrets */
			tape_t setup;
			sk_rng pr;
			sk_rng_seed(&setup.r, resec), setup.mode = 0, setup.calls = 0, setup.flip_call = 0;
			for (s = 0; s < 2; ++s)
			{
				b2_keypair(c->priv[s], c->pub[s], c->l / 4, tape_gen, &setup);
				memcpy(c->certdata[s] + c->cert_pref[s], c->pub[s], c->l / 2);
			}
			sk_rng_seed(&pr, sk_mix(resec, 7));
			sk_bytes(&pr, c->pwd[0], 40);
			memcpy(c->pwd[1], c->pwd[0], 40);
		}
		dfv = v, dfn[v] = 0, dffill[v] = 0;
		sk_heap_reset(fill);
		sk_wipe_normalise(); /* memWipe's pattern depends on a hidden counter */
		sk_heap_on_release(on_release_diff);
		PT[0].fail_at = who == 0 ? kk : 0, PT[1].fail_at = who == 1 ? kk : 0;
		setup_party(0, ts[v][0], 0), setup_party(1, ts[v][1], 0);
		ch_init(&CHS[v], 0);
		CHS[v].field_len = c->l / 4;
		CHS[v].fragment_honest = 0xFF;
		if (run_session(&CHS[v], ss, strat) != 0)
		{
			sk_heap_on_release(0);
			sk_violate(out, "deadlock", "session did not terminate");
			sk_restart_requested = 1;
			return;
		}
		sk_heap_scan_live(on_release_diff);
		sk_heap_on_release(0);
		if (sk_heap_exhausted() || df_over) { sk_fault(out, "arena or snapshot store exhausted"); return; }
		rc[v][0] = PT[0].rc, rc[v][1] = PT[1].rc;
		acc[v][0] = PT[0].accepted, acc[v][1] = PT[1].accepted;
		sk_dg_u64(&out->digest, rc[v][0]), sk_dg_u64(&out->digest, rc[v][1]);
		/* what is public in this run */
		cn[v] = 0;
		for (d = 0; d < 2; ++d)
			for (o = 0; o < 3; ++o)
				if (CHS[v].loglen[d][o] && cn[v] + CHS[v].loglen[d][o] <= sizeof(corpus[0]))
					memcpy(corpus[v] + cn[v], CHS[v].log[d][o], CHS[v].loglen[d][o]), cn[v] += CHS[v].loglen[d][o];
		for (s = 0; s < 2; ++s)
		{
			memcpy(corpus[v] + cn[v], c->certdata[s], c->certlen[s]), cn[v] += c->certlen[s];
			memcpy(corpus[v] + cn[v], c->hello[s], sizeof(c->hello[s])), cn[v] += sizeof(c->hello[s]);
		}
	}
	sk_count("calls", 1);
	sk_count("released_blocks", dfn[0]);
	if (is_known_framing())
		return;
	if (rc[0][0] != rc[1][0] || rc[0][1] != rc[1][1] || acc[0][0] != acc[1][0] || acc[0][1] != acc[1][1] || dfn[0] != dfn[1])
	{
		sk_count("probe.incomparable_pair", 1);
		return;
	}
	for (b = 0; b < dfn[0]; ++b)
	{
		const octet* x = dfbuf[0] + dfb[0][b].off;
		const octet* y = dfbuf[1] + dfb[1][b].off;
		size_t n = dfb[0][b].n, i = 0;
		if (dfb[1][b].n != n || dfb[1][b].kind != dfb[0][b].kind)
		{
			sk_count("probe.incomparable_pair", 1);
			return;
		}
		if (dfb[0][b].kind == 1)
			sk_count("probe.realloc_moved_block", 1);
		while (i < n)
		{
			size_t j, lo, hi;
			if (x[i] == y[i])
			{
				++i;
				continue;
			}
			/* maximal differing region, tolerating gaps of up to 3 equal octets */
			j = i + 1;
			for (;;)
			{
				size_t g = j;
				while (g < n && g < j + 4 && x[g] == y[g])
					++g;
				if (g < n && g < j + 4)
					j = g + 1;
				else
					break;
			}
			/* short regions are looked up with their surroundings: at least 8 octets */
			lo = i, hi = j;
			while (hi - lo < 8 && (lo > 0 || hi < n))
			{
				if (lo > 0) --lo;
				if (hi - lo < 8 && hi < n) ++hi;
			}
			if (!(memmem(corpus[0], cn[0], x + lo, hi - lo) && memmem(corpus[1], cn[1], y + lo, hi - lo)))
			{
				sk_violate(out, "secret_residue:protocol",
					"%s l=%u (A rc=%u, B rc=%u%s): released block #%d of %lu octets (%s) differs between two sets of secrets at [%lu,%lu) and the octets are in neither transcript",
					PN[c->proto], (unsigned)c->l, (unsigned)rc[0][0], (unsigned)rc[0][1], who >= 0 ? ", one allocation failed" : "",
					b, (unsigned long)n, KN[dfb[0][b].kind], (unsigned long)i, (unsigned long)j);
				return;
			}
			sk_count("probe.difference_excused_as_public", 1);
			i = j;
		}
	}
	sk_count("compared_pairs", 1);
	if (rc[0][0] != ERR_OK || rc[0][1] != ERR_OK)
		sk_count("probe.protocol_error_exit_compared", 1);
	out->sig = sk_mix(((uint64_t)c->proto << 24) | ((uint64_t)c->l << 8) | ((uint64_t)c->mode[0] << 1) | (uint64_t)c->mode[1] |
		((uint64_t)(who + 1) << 4) | ((uint64_t)kk << 40) | ((uint64_t)dfn[0] << 48), 79);
	out->nontrivial = 1;
}


/* ------------------------------------------------------------------------
   C04, "the peers use different passwords": one side of BPACE is the adversary
   above instead of the library.  The victim (step host or Run driver) must end
   with an error when the adversary's side is required to confirm the key, and
   must in no case hold the key the adversary derived. */
void run_bake_adv(uint64_t seed, const sk_mask* mask, sk_result* out)
{
	sk_rng r;
	cfg_t* c = &CFG;
	uint64_t fill, ts[2], ss;
	int strat, vic, adv;
	OUT = out, MASK = mask;
	c15_only = 0;
	sk_rng_seed(&r, seed);
	gen_cfg(&r, 1);
	c->proto = P_BPACE;
	c->adv = adv = (int)sk_below(&r, 2);
	vic = c->adv ^ 1;
	c->tape_mode[0] = c->tape_mode[1] = 0;
	fill = sk_u64(&r), ts[0] = sk_u64(&r), ts[1] = sk_u64(&r), ss = sk_u64(&r);
	strat = (int)sk_below(&r, 4);
	describe("BPACE session against a peer without the password");
	sk_text(OUT, "  adversary plays %c and offers the point (x, 0); victim %c runs %s", c->adv ? 'B' : 'A', vic ? 'B' : 'A', c->mode[vic] ? "the step functions" : "the Run driver");
	sk_heap_filter = heap_filter;
	out->nops = 0;
	sk_heap_reset(fill);
	PT[0].fail_at = PT[1].fail_at = 0;
	setup_party(0, ts[0], 0), setup_party(1, ts[1], 0);
	ch_init(&CHS[0], 0);
	CHS[0].fragment_honest = 0xFF;
	adv_sent = 0;
	if (run_session(&CHS[0], ss, strat) != 0)
	{
		/* the adversary may be left waiting for a message the victim never sends */
		sk_count("probe.adversary_left_waiting", 1);
		sk_restart_requested = 1;
	}
	c->adv = -1;
	sk_dg_u64(&out->digest, PT[vic].rc);
	sk_count("calls", 1);
	sk_count("fault.peer_without_password", 1);
	sk_text(OUT, "  victim %s rc=%u%s%s", PT[vic].accepted ? "accepts" : "fails", (unsigned)PT[vic].rc, PT[vic].failed_call ? " in " : "", PT[vic].failed_call ? PT[vic].failed_call : "");
	if (sk_heap_overrun())
	{
		sk_violate(out, "overrun:protocol", "canary damaged");
		return;
	}
	if (adv_sent && PT[vic].accepted)
	{
		/* does the victim depend on a confirmation from the adversary's side? */
		int confirmed = vic == 0 ? c->kcb : c->kca;
		if (confirmed)
		{
			sk_violate(out, "tampered_run_confirmed", "BPACE l=%u: party %c, which requires key confirmation, completed a session with a peer that does not know the password (off-curve point (x, 0))",
				(unsigned)c->l, vic ? 'B' : 'A');
			return;
		}
		if (!memcmp(PT[vic].key, ADV_K0, 32))
		{
			sk_violate(out, "tampered_run_agreed", "BPACE l=%u: party %c derived the key the password-less adversary predicted from its off-curve point",
				(unsigned)c->l, vic ? 'B' : 'A');
			return;
		}
	}
	if (adv_sent && !PT[vic].accepted && PT[vic].rc == ERR_BAD_POINT)
		sk_count("probe.off_curve_point_refused", 1);
	out->sig = sk_mix(((uint64_t)c->l << 8) | ((uint64_t)c->kca << 3) | ((uint64_t)c->kcb << 2) | ((uint64_t)adv << 1) | (uint64_t)c->mode[vic], 80);
	out->nontrivial = 1;
}


/* ------------------------------------------------------------------------
   C04, "for every ... generator output": every value a party draws from its
   generator must matter.  A fault-free session is run once to count each party's
   draws, then once more per draw with the lowest bit of exactly that draw
   inverted (same keys, same schedule, same everything else).  Nonces, blinding
   values and ephemeral scalars all travel - wrapped or as points - or enter the
   key, so the transcript or a key must change; a draw that changes nothing was
   overwritten or ignored (e.g. a nonce slot overlapping another field). */
void run_bake_tape(uint64_t seed, const sk_mask* mask, sk_result* out)
{
	static octet ref[2][3][CH_MAXMSG];
	static size_t reflen[2][3];
	octet refkey[2][32];
	unsigned ndraw[2] = { 0, 0 };
	sk_rng r;
	cfg_t* c = &CFG;
	uint64_t fill, ts[2], ss;
	int strat, who, d, o;
	unsigned k, el = 0;
	OUT = out, MASK = mask;
	c15_only = 0;
	sk_rng_seed(&r, seed);
	gen_cfg(&r, 1);
	if (c->proto == P_BAUTH)
		c->mode[0] = c->mode[1] = 1;
	c->tape_mode[0] = c->tape_mode[1] = 0;
	fill = sk_u64(&r), ts[0] = sk_u64(&r), ts[1] = sk_u64(&r), ss = sk_u64(&r);
	strat = (int)sk_below(&r, 4);
	describe("fault-free session, then one inverted bit per generator draw");
	sk_heap_filter = heap_filter;
	out->nops = 0;
	for (who = -1; who < 2; ++who)
		for (k = 1; k <= (who < 0 ? 1 : ndraw[who]); ++k)
		{
			int same = 1;
			if (who >= 0 && !sk_keep(mask, el++))
				continue;
			TAPE_FLIP[0] = TAPE_FLIP[1] = 0;
			if (who >= 0)
				TAPE_FLIP[who] = k;
			sk_heap_reset(fill);
			PT[0].fail_at = PT[1].fail_at = 0;
			setup_party(0, ts[0], 0), setup_party(1, ts[1], 0);
			TAPE_FLIP[0] = TAPE_FLIP[1] = 0;
			ch_init(&CHS[0], 0);
			CHS[0].fragment_honest = 0xFF;
			if (run_session(&CHS[0], ss, strat) != 0)
			{
				sk_violate(out, "deadlock", "fault-free session did not terminate");
				sk_restart_requested = 1;
				return;
			}
			if (is_known_framing())
				return;
			if (who < 0)
			{
				if (!PT[0].accepted || !PT[1].accepted)
					return; /* judged by the bake leg */
				ndraw[0] = PT[0].tape.calls, ndraw[1] = PT[1].tape.calls;
				if (ndraw[0] > 12) ndraw[0] = 12;
				if (ndraw[1] > 12) ndraw[1] = 12;
				out->nops = ndraw[0] + ndraw[1];
				for (d = 0; d < 2; ++d)
					for (o = 0; o < 3; ++o)
						reflen[d][o] = CHS[0].loglen[d][o], memcpy(ref[d][o], CHS[0].log[d][o], reflen[d][o]);
				memcpy(refkey[0], PT[0].key, 32), memcpy(refkey[1], PT[1].key, 32);
				sk_text(OUT, "  reference session: A drew %u times, B drew %u times", ndraw[0], ndraw[1]);
				continue;
			}
			for (d = 0; d < 2; ++d)
				for (o = 0; o < 3; ++o)
					if (CHS[0].loglen[d][o] != reflen[d][o] || memcmp(CHS[0].log[d][o], ref[d][o], reflen[d][o]))
						same = 0;
			if (memcmp(PT[0].key, refkey[0], 32) || memcmp(PT[1].key, refkey[1], 32) || PT[0].rc != ERR_OK || PT[1].rc != ERR_OK)
				same = 0;
			sk_dg_u64(&out->digest, (uint64_t)same);
			sk_count("fault.generator_draw_bit_inverted", 1);
			if (same)
			{
				sk_violate(out, "generator_output_ignored", "%s l=%u kca=%d kcb=%d: inverting the lowest bit of draw #%u of party %c changes neither a message nor a key",
					PN[c->proto], (unsigned)c->l, c->kca, c->kcb, k, who ? 'B' : 'A');
				return;
			}
		}
	sk_count("calls", 1);
	out->sig = sk_mix(((uint64_t)c->proto << 24) | ((uint64_t)c->l << 8) | ((uint64_t)c->kca << 3) | ((uint64_t)c->kcb << 2) | ((uint64_t)ndraw[0] << 32) | ((uint64_t)ndraw[1] << 40), 81);
	out->nontrivial = 1;
}
