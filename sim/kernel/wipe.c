/* memWipe counter normalisation (C15, C18, C07).
   memWipe() fills with a pattern that depends on a hidden 8-bit call counter, and the library
   feeds wiped buffers back into the shared generator (rngRekey, rngCreate): without a common
   starting point two executions of the same simulated run differ.  The guarded hook
   memVerifReset() (H-reset) restarts the counter; it does not depend on how the pattern is
   computed, so a maintainer may change the pattern freely.  (An earlier version stepped the
   counter through the public function until a known value had been written; that relied on the
   exact arithmetic of memWipe and broke under a behaviour-preserving change of the pattern.) */
#include "simk.h"
#include "bee2/core/mem.h"

void memVerifReset(void);

void sk_wipe_normalise(void)
{
	/* the request is consumed here, by a 1-octet wipe of a static buffer issued from the caller's
	   own context, so that simulated tasks only ever read the request flag (no write to it from
	   inside a task that ThreadSanitizer would have to order with the other tasks) */
	static unsigned char wbuf[16] __attribute__((aligned(16)));
	memVerifReset();
	memWipe(wbuf, 1);
}
