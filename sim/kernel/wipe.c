/* memWipe counter normalisation through the public function only (C15). */
#include "simk.h"
#include "bee2/core/mem.h"

static unsigned char wbuf[32] __attribute__((aligned(16)));

void sk_wipe_normalise(void)
{
	/* a 1-octet wipe at an address = 15 (mod 16) writes the current counter
	   and advances it by 17 (odd), so <= 256 calls reach any residue */
	int i;
	for (i = 0; i < 600; ++i)
	{
		memWipe(wbuf + 15, 1);
		if (wbuf[15] == (unsigned char)(0 - 17))
			return; /* counter is now 0 */
	}
}
