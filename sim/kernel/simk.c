/* Kernel: prng, digest, counters, batch/one-shot driver loop. */
#define _GNU_SOURCE
#include "simk.h"
#include <stdarg.h>
#include <stdlib.h>
#include <string.h>
#include <time.h>
#include <fcntl.h>
#include <unistd.h>
#include <sys/mman.h>

/* ------------------------------------------------------------------ prng */
uint64_t sk_sm64(uint64_t* x)
{
	uint64_t z = (*x += 0x9e3779b97f4a7c15ull);
	z = (z ^ (z >> 30)) * 0xbf58476d1ce4e5b9ull;
	z = (z ^ (z >> 27)) * 0x94d049bb133111ebull;
	return z ^ (z >> 31);
}

uint64_t sk_mix(uint64_t a, uint64_t b)
{
	uint64_t x = a ^ (b * 0x9e3779b97f4a7c15ull + 0x632be59bd9b4e019ull);
	sk_sm64(&x);
	return sk_sm64(&x);
}

void sk_rng_seed(sk_rng* r, uint64_t seed)
{
	int i;
	for (i = 0; i < 4; ++i)
		r->s[i] = sk_sm64(&seed);
}

static inline uint64_t rotl(uint64_t x, int k) { return (x << k) | (x >> (64 - k)); }

uint64_t sk_u64(sk_rng* r)
{
	uint64_t* s = r->s;
	uint64_t result = rotl(s[1] * 5, 7) * 9, t = s[1] << 17;
	s[2] ^= s[0], s[3] ^= s[1], s[1] ^= s[2], s[0] ^= s[3];
	s[2] ^= t, s[3] = rotl(s[3], 45);
	return result;
}

uint32_t sk_below(sk_rng* r, uint32_t n)
{
	return (uint32_t)(((sk_u64(r) >> 32) * (uint64_t)n) >> 32);
}

uint32_t sk_range(sk_rng* r, uint32_t lo, uint32_t hi)
{
	return lo + sk_below(r, hi - lo + 1);
}

int sk_chance(sk_rng* r, uint32_t num, uint32_t den)
{
	return sk_below(r, den) < num;
}

void sk_bytes(sk_rng* r, void* buf, size_t n)
{
	unsigned char* p = (unsigned char*)buf;
	while (n >= 8)
	{
		uint64_t v = sk_u64(r);
		memcpy(p, &v, 8), p += 8, n -= 8;
	}
	if (n)
	{
		uint64_t v = sk_u64(r);
		memcpy(p, &v, n);
	}
}

/* ---------------------------------------------------------------- digest */
void sk_dg_add(sk_dg* h, const void* p, size_t n)
{
	const unsigned char* b = (const unsigned char*)p;
	uint64_t x = *h;
	while (n--)
		x = (x ^ *b++) * 0x100000001b3ull;
	*h = x;
}
void sk_dg_u64(sk_dg* h, uint64_t v) { sk_dg_add(h, &v, 8); }
void sk_dg_str(sk_dg* h, const char* s) { sk_dg_add(h, s, strlen(s) + 1); }

/* ---------------------------------------------------------------- result */
__attribute__((no_sanitize("thread"))) void sk_violate(sk_result* r, const char* cls, const char* fmt, ...)
{
	va_list ap;
	if (r->violated)
		return; /* first violation wins */
	r->violated = 1;
	snprintf(r->cls, sizeof(r->cls), "%s", cls);
	{
		/* the class is one token of the result line */
		char* q;
		for (q = r->cls; *q; ++q)
			if (*q == ' ' || *q == '\t' || *q == '\n')
				*q = '_';
	}
	va_start(ap, fmt);
	vsnprintf(r->detail, sizeof(r->detail), fmt, ap);
	va_end(ap);
}

void sk_fault(sk_result* r, const char* fmt, ...)
{
	va_list ap;
	if (r->harness_fault)
		return;
	r->harness_fault = 1;
	va_start(ap, fmt);
	vsnprintf(r->detail, sizeof(r->detail), fmt, ap);
	va_end(ap);
}

__attribute__((no_sanitize("thread"))) void sk_text(sk_result* r, const char* fmt, ...)
{
	va_list ap;
	int n;
	if (r->want_text == 2)
	{
		/* live mode (--one --text): print at once so that the plan is visible
		   even if the run crashes */
		fputs("T ", stdout);
		va_start(ap, fmt);
		vprintf(fmt, ap);
		va_end(ap);
		fputc('\n', stdout);
		fflush(stdout);
		return;
	}
	if (!r->want_text || r->textlen + 2 >= SK_MAXTEXT)
		return;
	va_start(ap, fmt);
	n = vsnprintf(r->text + r->textlen, SK_MAXTEXT - r->textlen - 1, fmt, ap);
	va_end(ap);
	if (n < 0)
		return;
	if ((size_t)n > SK_MAXTEXT - r->textlen - 2)
		n = (int)(SK_MAXTEXT - r->textlen - 2);
	r->textlen += (size_t)n;
	r->text[r->textlen++] = '\n';
	r->text[r->textlen] = 0;
}

int sk_keep(const sk_mask* m, unsigned i)
{
	if (!m)
		return 1;
	if (i >= m->n)
		return 0;
	return (m->bits[i >> 3] >> (i & 7)) & 1;
}

/* -------------------------------------------------------------- counters */
#define MAXCTR 256
static struct { char name[48]; uint64_t v; } ctrs[MAXCTR];
static int nctrs;

/* no libc calls here: TSan intercepts strcmp/snprintf even from uninstrumented
   code, and counters are bumped from every fiber */
static int name_eq(const char* a, const char* b)
{
	while (*a && *a == *b)
		++a, ++b;
	return *a == *b;
}

__attribute__((no_sanitize("thread"))) void sk_count(const char* name, uint64_t add)
{
	int i;
	for (i = 0; i < nctrs; ++i)
		if (name_eq(ctrs[i].name, name))
		{
			ctrs[i].v += add;
			return;
		}
	if (nctrs < MAXCTR)
	{
		size_t k = 0;
		while (name[k] && k + 1 < sizeof(ctrs[nctrs].name))
			ctrs[nctrs].name[k] = name[k], ++k;
		ctrs[nctrs].name[k] = 0;
		ctrs[nctrs++].v = add;
	}
}

__attribute__((no_sanitize("thread"))) uint64_t sk_counter(const char* name)
{
	int i;
	for (i = 0; i < nctrs; ++i)
		if (name_eq(ctrs[i].name, name))
			return ctrs[i].v;
	return 0;
}

/* ------------------------------------------------------- signature set */
static uint64_t* sigtab;
static size_t sigcap, sigcnt;

__attribute__((no_sanitize("thread"))) int sk_sig_add(uint64_t sig)
{
	size_t i;
	if (sig == 0)
		sig = 1;
	if ((sigcnt + 1) * 2 > sigcap)
	{
		size_t ncap = sigcap ? sigcap * 2 : 4096, j;
		int was_armed = sk_heap_armed();
		uint64_t* nt;
		sk_heap_disarm(); /* the table must not come from the per-run arena */
		nt = (uint64_t*)calloc(ncap, 8);
		for (j = 0; j < sigcap; ++j)
			if (sigtab[j])
			{
				size_t k = (size_t)(sk_mix(sigtab[j], 7) & (ncap - 1));
				while (nt[k])
					k = (k + 1) & (ncap - 1);
				nt[k] = sigtab[j];
			}
		free(sigtab);
		sigtab = nt, sigcap = ncap;
		if (was_armed)
			sk_heap_arm();
	}
	i = (size_t)(sk_mix(sig, 7) & (sigcap - 1));
	while (sigtab[i])
	{
		if (sigtab[i] == sig)
			return 0;
		i = (i + 1) & (sigcap - 1);
	}
	sigtab[i] = sig;
	++sigcnt;
	return 1;
}

/* ------------------------------------------------------------------ main */
sk_opts sk_options;
int sk_restart_requested;

static uint64_t hash_str(const char* s)
{
	sk_dg h = SK_DG_INIT;
	sk_dg_str(&h, s);
	return h;
}

static double now_s(void)
{
	struct timespec ts;
	clock_gettime(CLOCK_MONOTONIC, &ts);
	return ts.tv_sec + ts.tv_nsec * 1e-9;
}

static sk_mask* parse_keep(const char* s)
{
	static sk_mask m;
	static unsigned char bits[8192];
	memset(bits, 0, sizeof(bits));
	m.n = 0, m.bits = bits;
	while (*s)
	{
		char* e;
		unsigned long v = strtoul(s, &e, 10);
		if (e == s)
			break;
		if (v < sizeof(bits) * 8)
		{
			bits[v >> 3] |= (unsigned char)(1u << (v & 7));
			if (v + 1 > m.n)
				m.n = (unsigned)v + 1;
		}
		s = *e ? e + 1 : e;
	}
	return &m;
}

static void json_str(FILE* f, const char* s)
{
	fputc('"', f);
	for (; *s; ++s)
	{
		unsigned char c = (unsigned char)*s;
		if (c == '"' || c == '\\')
			fputc('\\', f), fputc(c, f);
		else if (c == '\n')
			fputs("\\n", f);
		else if (c < 0x20)
			fprintf(f, "\\u%04x", c);
		else
			fputc(c, f);
	}
	fputc('"', f);
}

static sk_result res, res2;

/* occurrences of a violation class within this batch */
static int seen_class(const char* cls)
{
	static char names[64][96];
	static int counts[64], n;
	int i;
	for (i = 0; i < n; ++i)
		if (!strcmp(names[i], cls))
			return counts[i]++;
	if (n < 64)
	{
		snprintf(names[n], sizeof(names[n]), "%s", cls);
		counts[n++] = 1;
	}
	return 0;
}

int sk_main(int argc, char** argv)
{
	uint64_t seed = 1, from = 0, to = 0, one = 0;
	int have_one = 0, want_text = 0, i, nsamples = 0;
	const char* keep = 0;
	const char* status_path = 0;
	const char* sigs_path = 0;
	const char* digests_path = 0;
	double budget = 0, t0;
	volatile uint64_t* status = 0;
	uint64_t base, idx, runs = 0, nviol = 0, nfault = 0, nontrivial = 0;
	FILE* dgf = 0;
	sk_mask* mask = 0;

	sk_options.name = sk_the_engine.name;
	sk_options.property = "";
	sk_options.variant = "";
	for (i = 1; i < argc; ++i)
	{
		if (!strcmp(argv[i], "--seed") && i + 1 < argc)
			seed = strtoull(argv[++i], 0, 10);
		else if (!strcmp(argv[i], "--from") && i + 1 < argc)
			from = strtoull(argv[++i], 0, 10);
		else if (!strcmp(argv[i], "--to") && i + 1 < argc)
			to = strtoull(argv[++i], 0, 10);
		else if (!strcmp(argv[i], "--one") && i + 1 < argc)
			one = strtoull(argv[++i], 0, 10), have_one = 1;
		else if (!strcmp(argv[i], "--keep") && i + 1 < argc)
			keep = argv[++i];
		else if (!strcmp(argv[i], "--text"))
			want_text = 1;
		else if (!strcmp(argv[i], "--tier") && i + 1 < argc)
			sk_options.tier = !strcmp(argv[++i], "thorough");
		else if (!strcmp(argv[i], "--variant") && i + 1 < argc)
			sk_options.variant = argv[++i];
		else if (!strcmp(argv[i], "--property") && i + 1 < argc)
			sk_options.property = argv[++i];
		else if (!strcmp(argv[i], "--status") && i + 1 < argc)
			status_path = argv[++i];
		else if (!strcmp(argv[i], "--sigs") && i + 1 < argc)
			sigs_path = argv[++i];
		else if (!strcmp(argv[i], "--digests") && i + 1 < argc)
			digests_path = argv[++i];
		else if (!strcmp(argv[i], "--budget") && i + 1 < argc)
			budget = atof(argv[++i]);
		else
		{
			fprintf(stderr, "unknown argument %s\n", argv[i]);
			return 2;
		}
	}
	setvbuf(stdout, 0, _IOLBF, 0);
	if (sk_the_engine.init)
		sk_the_engine.init(&sk_options);

	if (have_one)
	{
		if (keep)
			mask = parse_keep(keep);
		memset(&res, 0, sizeof(res));
		res.digest = SK_DG_INIT;
		res.want_text = want_text ? 2 : 0;
		alarm(180);
		sk_the_engine.run(one, mask, &res);
		alarm(0);
		if (want_text)
		{
			char* p = res.text;
			while (*p)
			{
				char* e = strchr(p, '\n');
				if (e)
					*e = 0;
				printf("T %s\n", p);
				if (!e)
					break;
				p = e + 1;
			}
		}
		printf("RESULT digest=%016llx violated=%d fault=%d nops=%u cls=%s\n",
			(unsigned long long)res.digest, res.violated, res.harness_fault,
			res.nops, res.violated ? res.cls : "-");
		if (res.violated || res.harness_fault)
			printf("DETAIL %s\n", res.detail);
		fflush(stdout);
		return res.harness_fault ? 2 : res.violated ? 1 : 0;
	}

	if (status_path)
	{
		int fd = open(status_path, O_RDWR | O_CREAT, 0644);
		if (fd >= 0 && ftruncate(fd, 64) == 0)
		{
			void* p = mmap(0, 64, PROT_READ | PROT_WRITE, MAP_SHARED, fd, 0);
			if (p != MAP_FAILED)
				status = (volatile uint64_t*)p;
		}
	}
	if (digests_path)
		dgf = fopen(digests_path, "w");
	{
		char tag[128];
		snprintf(tag, sizeof(tag), "%s/%s", sk_the_engine.name,
			sk_options.variant);
		base = sk_mix(seed, hash_str(tag));
	}
	t0 = now_s();
	printf("SAMPLES_BEGIN\n");
	for (idx = from; idx < to; ++idx)
	{
		uint64_t rs = sk_mix(base, idx);
		if (status)
			status[0] = idx + 1, status[1] = rs;
		alarm(180); /* watchdog: a run that hangs is killed by SIGALRM and attributed to this index */
		memset(&res, 0, offsetof(sk_result, text));
		res.text[0] = 0, res.textlen = 0;
		res.digest = SK_DG_INIT;
		res.want_text = (nsamples < 3 && from == 0);
		sk_the_engine.run(rs, 0, &res);
		++runs;
		if (dgf)
			fprintf(dgf, "%llu %016llx\n", (unsigned long long)idx,
				(unsigned long long)res.digest);
		if (res.want_text)
		{
			printf("SAMPLE ");
			json_str(stdout, res.text);
			printf("\n");
			++nsamples;
		}
		if (res.sig && sk_sig_add(res.sig) && res.nontrivial)
			++nontrivial;
		if (res.harness_fault)
		{
			++nfault;
			printf("F %llu %llu %s\n", (unsigned long long)idx,
				(unsigned long long)rs, res.detail);
		}
		else if (res.violated && seen_class(res.cls) >= 3)
		{
			/* a class already reported three times in this batch (typically a recorded known
			   finding that many runs meet) is only counted: it must not use up the batch */
			sk_count("violations_of_an_already_reported_class", 1);
		}
		else if (res.violated)
		{
			/* same-process determinism gate */
			memset(&res2, 0, offsetof(sk_result, text));
			res2.text[0] = 0, res2.textlen = 0;
			res2.digest = SK_DG_INIT;
			sk_the_engine.run(rs, 0, &res2);
			++nviol;
			printf("V %llu %llu %s %s %u | %s\n", (unsigned long long)idx,
				(unsigned long long)rs, res.cls,
				(res2.violated && res2.digest == res.digest &&
					!strcmp(res.cls, res2.cls)) ? "stable" : "UNSTABLE",
				res.nops, res.detail);
			if (nviol >= 50)
				break; /* enough to triage; driver reports all of them */
		}
		if (sk_restart_requested)
		{
			++idx;
			break;
		}
		if (budget > 0 && (runs & 15) == 0 && now_s() - t0 > budget)
		{
			++idx;
			break;
		}
	}
	alarm(0);
	if (status)
		status[0] = 0;
	if (dgf)
		fclose(dgf);
	if (sigs_path)
	{
		FILE* f = fopen(sigs_path, "wb");
		if (f)
		{
			size_t j;
			for (j = 0; j < sigcap; ++j)
				if (sigtab[j])
					fwrite(&sigtab[j], 8, 1, f);
			fclose(f);
		}
	}
	printf("SUMMARY {\"runs\":%llu,\"next\":%llu,\"violations\":%llu,"
		"\"harness_faults\":%llu,\"distinct\":%llu,\"nontrivial\":%llu,"
		"\"wall_s\":%.3f,\"counters\":{",
		(unsigned long long)runs, (unsigned long long)idx,
		(unsigned long long)nviol, (unsigned long long)nfault,
		(unsigned long long)sigcnt, (unsigned long long)nontrivial,
		now_s() - t0);
	for (i = 0; i < nctrs; ++i)
		printf("%s\"%s\":%llu", i ? "," : "", ctrs[i].name,
			(unsigned long long)ctrs[i].v);
	printf("}");
	if (sk_the_engine.summary)
		sk_the_engine.summary(stdout);
	printf("}\n");
	fflush(stdout);
	return sk_restart_requested ? 75 : 0;
}

int main(int argc, char** argv)
{
	int rc = sk_main(argc, argv);
	fflush(stdout);
	fflush(stderr);
#ifdef SK_COV
	{
		/* coverage build (tools/coverage.sh): the profile is written by hand because _exit skips atexit */
		extern int __llvm_profile_write_file(void);
		__llvm_profile_write_file();
	}
#endif
	/* skip sanitizer finalizers: race reports are already turned into
	   violations by the engine and must not change the exit status */
	_exit(rc);
}

/* sanitizer defaults: classifiable exit code, no leak checker (the simulated
   heap has its own live-set oracle) */
__attribute__((used, visibility("default"))) const char* __asan_default_options(void)
{
	return "exitcode=77:detect_leaks=0:abort_on_error=0:allocator_may_return_null=1:detect_stack_use_after_return=0";
}
__attribute__((used, visibility("default"))) const char* __ubsan_default_options(void)
{
#ifdef SK_TSAN
	return ""; /* the TSan runtime parses these too; exitcode is a common flag */
#endif
	return "halt_on_error=1:exitcode=77:print_stacktrace=1";
}
__attribute__((used, visibility("default"))) const char* __msan_default_options(void)
{
	return "exitcode=77:halt_on_error=1:print_stats=0";
}
__attribute__((used, visibility("default"))) const char* __tsan_default_options(void)
{
	return "exitcode=0:halt_on_error=0:report_signal_unsafe=0:history_size=2";
}
