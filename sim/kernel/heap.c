/* Simulated heap behind -Wl,--wrap=malloc,calloc,realloc,free (DESIGN.md §2).
   Compiled WITHOUT sanitizer instrumentation; talks to ASan through the manual
   poisoning interface when SK_ASAN is defined. */
#define _GNU_SOURCE
#include "simk.h"
#include <string.h>
#include <stdlib.h>
#include <sys/mman.h>

void* __real_malloc(size_t);
void* __real_calloc(size_t, size_t);
void* __real_realloc(void*, size_t);
void __real_free(void*);

#ifdef SK_ASAN
void __asan_poison_memory_region(void const volatile* addr, size_t size);
void __asan_unpoison_memory_region(void const volatile* addr, size_t size);
#define POISON(p, n) __asan_poison_memory_region((p), (n))
#define UNPOISON(p, n) __asan_unpoison_memory_region((p), (n))
#else
#define POISON(p, n) ((void)0)
#define UNPOISON(p, n) ((void)0)
#endif
#ifdef SK_MSAN
/* MemorySanitizer: a fresh block is garbage AND undefined; calloc'ed memory is defined */
void __msan_poison(const volatile void* a, size_t size);
void __msan_unpoison(const volatile void* a, size_t size);
#define UNDEF(p, n) __msan_poison((p), (n))
#define DEF(p, n) __msan_unpoison((p), (n))
#else
#define UNDEF(p, n) ((void)0)
#define DEF(p, n) ((void)0)
#endif

#define ARENA_SIZE ((size_t)512 << 20)
#define REDZONE 32
#define CANARY 0xA5

typedef struct { size_t off, size; int live; } blk_t;

static unsigned char* arena;
static size_t top, high;
static blk_t* blks;
static long nblks, capblks, nlive;
static size_t live_bytes;
static int armed, use_arena = 1, exhausted, overrun, stale;
static long alloc_calls, fail_k, nfailed;
static int fail_persistent;
static sk_rng fill_rng;
static sk_release_cb release_cb;
static void (*yield_fn)(void);
static uint64_t trace;
int (*sk_heap_filter)(size_t n, int op); /* event-keyed fault injection: nonzero = fail this allocation */

/* table for the non-arena (tsan) mode */
#define XT_CAP 8192
static struct { void* p; size_t size; } xt[XT_CAP];
static long xt_live;

static void arena_init(void)
{
	if (arena)
		return;
	arena = (unsigned char*)mmap(0, ARENA_SIZE, PROT_READ | PROT_WRITE,
		MAP_PRIVATE | MAP_ANONYMOUS | MAP_NORESERVE, -1, 0);
	if (arena == MAP_FAILED)
		abort();
	capblks = 1 << 16;
	blks = (blk_t*)__real_malloc(sizeof(blk_t) * (size_t)capblks);
}

int sk_heap_owns(const void* p)
{
	return arena && (const unsigned char*)p >= arena &&
		(const unsigned char*)p < arena + ARENA_SIZE;
}

void sk_heap_use_arena(int on) { use_arena = on; }

void sk_heap_reset(uint64_t fill_seed)
{
	arena_init();
	if (high)
	{
		UNPOISON(arena, high);
		/* leave old contents in place: stale data from the previous run is
		   overwritten by seeded garbage at allocation time */
	}
	top = 0, high = 0, nblks = 0, nlive = 0, live_bytes = 0;
	alloc_calls = 0, fail_k = 0, fail_persistent = 0, nfailed = 0;
	exhausted = 0, overrun = 0, armed = 0;
	trace = SK_DG_INIT;
	stale = 0;
	sk_rng_seed(&fill_rng, fill_seed);
	if (!use_arena)
	{
		long i;
		for (i = 0; i < XT_CAP; ++i)
			if (xt[i].p)
				__real_free(xt[i].p), xt[i].p = 0; /* leaked by the previous run */
		xt_live = 0;
	}
}

/* new run in which fresh blocks keep whatever the previous run left at the same
   place (adversarial "garbage": the stale image of an earlier computation) */
void sk_heap_reset_stale(void)
{
	sk_heap_reset(0);
	stale = 1;
}

/* mark memory as defined for MemorySanitizer (no-op elsewhere) */
void sk_mark_defined(void* p, size_t n) { DEF(p, n); (void)p; (void)n; }

/* digest of everything allocated so far (contents and layout): lets an engine see whether a
   sequence of mutations left its arguments exactly as they were */
uint64_t sk_heap_digest(void)
{
	/* hashed here, in the uninstrumented TU: the range includes poisoned red zones */
	uint64_t h = 1469598103934665603ull;
	size_t i;
	if (use_arena && arena)
		for (i = 0; i < top; ++i)
			h = (h ^ arena[i]) * 1099511628211ull;
	return h;
}

void sk_heap_arm(void) { armed = 1; }
void sk_heap_disarm(void) { armed = 0; }
int sk_heap_armed(void) { return armed; }
void sk_heap_fail_at(long k, int persistent)
{
	alloc_calls = 0, fail_k = k, fail_persistent = persistent;
}
long sk_heap_allocs(void) { return alloc_calls; }
long sk_heap_live(void) { return use_arena ? nlive : xt_live; }
size_t sk_heap_live_bytes(void) { return live_bytes; }
long sk_heap_failed(void) { return nfailed; }
void sk_heap_on_release(sk_release_cb cb) { release_cb = cb; }
int sk_heap_overrun(void) { return overrun; }
int sk_heap_exhausted(void) { return exhausted; }
uint64_t sk_heap_trace(void) { return trace; }
void sk_heap_set_yield(void (*fn)(void)) { yield_fn = fn; }

static void* arena_alloc(size_t n)
{
	size_t off = top + REDZONE, end;
	blk_t* b;
	unsigned char* p;
	if (n == 0)
		n = 1;
	end = (off + n + 15) & ~(size_t)15;
	if (end + REDZONE > ARENA_SIZE || nblks >= capblks)
	{
		exhausted = 1;
		return 0;
	}
	p = arena + off;
	UNPOISON(arena + top, end + REDZONE - top);
	memset(arena + top, CANARY, REDZONE);
	memset(p + n, CANARY, end - off - n + REDZONE);
	if (!stale)
		sk_bytes(&fill_rng, p, n);
	UNDEF(arena + top, end + REDZONE - top);
	POISON(arena + top, REDZONE);
	POISON(arena + end, REDZONE);
	/* tail between n and the 16-octet boundary: ASan handles a partial last
	   granule when the region start is 8-aligned */
	if (end - off - n)
	{
		POISON(p, end - off);
		UNPOISON(p, n);
	}
	b = &blks[nblks++];
	b->off = off, b->size = n, b->live = 1;
	top = end;
	if (top + REDZONE > high)
		high = top + REDZONE;
	++nlive, live_bytes += n;
	return p;
}

static blk_t* find_blk(const void* p)
{
	size_t off = (size_t)((const unsigned char*)p - arena);
	long lo = 0, hi = nblks - 1;
	while (lo <= hi)
	{
		long mid = (lo + hi) / 2;
		if (blks[mid].off == off)
			return &blks[mid];
		if (blks[mid].off < off)
			lo = mid + 1;
		else
			hi = mid - 1;
	}
	return 0;
}

static void check_canary(blk_t* b)
{
#ifndef SK_ASAN
	unsigned char* p = arena + b->off;
	size_t end = (b->off + b->size + 15) & ~(size_t)15, i;
	for (i = 0; i < REDZONE; ++i)
		if (p[-1 - (long)i] != CANARY)
			overrun = 1;
	for (i = b->off + b->size; i < end + REDZONE; ++i)
		if (arena[i] != CANARY)
			overrun = 1;
#else
	(void)b;
#endif
}

static void arena_release(void* p, int kind)
{
	blk_t* b = find_blk(p);
	if (!b || !b->live)
	{
		/* invalid or double free: let ASan-like abort happen */
		overrun = 1;
#ifdef SK_ASAN
		abort();
#endif
		return;
	}
	if (release_cb)
		release_cb(p, b->size, kind);
	check_canary(b);
	b->live = 0;
	--nlive, live_bytes -= b->size;
	POISON(p, b->size);
	UNDEF(p, b->size);
}

static void xt_add(void* p, size_t n)
{
	size_t i = (size_t)(sk_mix((uint64_t)(uintptr_t)p, 3) % XT_CAP);
	long tries = 0;
	while (xt[i].p && tries++ < XT_CAP)
		i = (i + 1) % XT_CAP;
	if (xt[i].p)
	{
		exhausted = 1;
		return;
	}
	xt[i].p = p, xt[i].size = n;
	++xt_live;
}

static long xt_find(void* p)
{
	size_t i = (size_t)(sk_mix((uint64_t)(uintptr_t)p, 3) % XT_CAP);
	long tries = 0;
	while (tries++ < XT_CAP)
	{
		if (xt[i].p == p)
			return (long)i;
		i = (i + 1) % XT_CAP;
	}
	return -1;
}

static int should_fail(void)
{
	++alloc_calls;
	if (fail_k > 0 && (alloc_calls == fail_k ||
			(fail_persistent && alloc_calls >= fail_k)))
	{
		++nfailed;
		return 1;
	}
	return 0;
}

static void* armed_alloc(size_t n, int op)
{
	void* p;
	uint64_t t[2];
	if (yield_fn)
		yield_fn();
	t[0] = (uint64_t)op, t[1] = n;
	sk_dg_add(&trace, t, sizeof(t));
	if (should_fail())
		return 0;
	if (sk_heap_filter && sk_heap_filter(n, op))
	{
		++nfailed;
		return 0;
	}
	if (use_arena)
		return arena_alloc(n);
	p = __real_malloc(n ? n : 1);
	if (p)
	{
		sk_bytes(&fill_rng, p, n);
		xt_add(p, n);
	}
	return p;
}

void* __wrap_malloc(size_t n)
{
	if (!armed)
		return __real_malloc(n);
	return armed_alloc(n, 1);
}

void* __wrap_calloc(size_t a, size_t b)
{
	void* p;
	if (!armed)
		return __real_calloc(a, b);
	p = armed_alloc(a * b, 2);
	if (p)
	{
		memset(p, 0, a * b);
		DEF(p, a * b);
	}
	return p;
}

void __wrap_free(void* p)
{
	if (!p)
		return;
	if (sk_heap_owns(p))
	{
		uint64_t t[2] = { 4, 0 };
		sk_dg_add(&trace, t, sizeof(t));
		arena_release(p, 0);
		return;
	}
	if (!use_arena)
	{
		long i = xt_find(p);
		if (i >= 0)
		{
			if (release_cb)
				release_cb(p, xt[i].size, 0);
			xt[i].p = 0;
			--xt_live;
			/* re-insert the probe chain following i */
			{
				size_t j = ((size_t)i + 1) % XT_CAP;
				while (xt[j].p)
				{
					void* q = xt[j].p;
					size_t s = xt[j].size;
					xt[j].p = 0, --xt_live;
					xt_add(q, s);
					j = (j + 1) % XT_CAP;
				}
			}
		}
	}
	__real_free(p);
}

void* __wrap_realloc(void* p, size_t n)
{
	if (!p)
		return __wrap_malloc(n);
	if (sk_heap_owns(p))
	{
		blk_t* b = find_blk(p);
		void* q;
		if (n == 0)
		{
			__wrap_free(p);
			return 0;
		}
		if (!b || !b->live)
		{
			overrun = 1;
#ifdef SK_ASAN
			abort();
#endif
			return 0;
		}
		if (yield_fn)
			yield_fn();
		{
			uint64_t t[2];
			t[0] = 3, t[1] = n;
			sk_dg_add(&trace, t, sizeof(t));
		}
		if (should_fail())
			return 0;
		if (sk_heap_filter && sk_heap_filter(n, 3))
		{
			++nfailed;
			return 0;
		}
		q = arena_alloc(n);
		if (!q)
			return 0;
		memcpy(q, p, b->size < n ? b->size : n);
		arena_release(p, 1);
		return q;
	}
	if (!use_arena && armed)
	{
		long i = xt_find(p);
		void* q;
		if (i < 0)
			return __real_realloc(p, n);
		if (yield_fn)
			yield_fn();
		if (should_fail())
			return 0;
		if (sk_heap_filter && sk_heap_filter(n, 3))
		{
			++nfailed;
			return 0;
		}
		/* always move */
		q = __real_malloc(n ? n : 1);
		if (!q)
			return 0;
		sk_bytes(&fill_rng, q, n);
		memcpy(q, p, xt[i].size < n ? xt[i].size : n);
		xt_add(q, n);
		__wrap_free(p);
		return q;
	}
	return __real_realloc(p, n);
}

void sk_heap_scan_live(sk_release_cb cb)
{
	long i;
	if (!use_arena)
		return;
	for (i = 0; i < nblks; ++i)
		if (blks[i].live)
		{
			check_canary(&blks[i]);
			if (cb && blks[i].live == 1)
				cb(arena + blks[i].off, blks[i].size, 2);
		}
}

void* sk_alloc(size_t n)
{
	void* p;
	if (!use_arena)
	{
		p = __real_malloc(n ? n : 1);
		sk_bytes(&fill_rng, p, n);
		return p;
	}
	arena_init();
	p = arena_alloc(n);
	if (!p)
		abort();
	/* harness blocks are not part of the library's live set */
	--nlive, live_bytes -= (n ? n : 1);
	blks[nblks - 1].live = 2;
	return p;
}

void sk_free(void* p)
{
	blk_t* b;
	if (!p)
		return;
	if (!sk_heap_owns(p))
	{
		__real_free(p);
		return;
	}
	b = find_blk(p);
	if (b && b->live == 2)
	{
		check_canary(b);
		b->live = 0;
		POISON(p, b->size);
	}
}
