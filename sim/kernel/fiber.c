/* Seeded cooperative scheduler over ucontext fibers (DESIGN.md §2).
   Compiled WITHOUT sanitizer instrumentation so that it adds no happens-before
   edges; talks to the sanitizers through their fiber interfaces. */
#define _GNU_SOURCE
#include "simk.h"
#include <ucontext.h>
#include <string.h>
#include <stdlib.h>
#include <sys/mman.h>

#ifdef SK_TSAN
void* __tsan_get_current_fiber(void);
void* __tsan_create_fiber(unsigned flags);
void __tsan_destroy_fiber(void* fiber);
void __tsan_switch_to_fiber(void* fiber, unsigned flags);
#define TSAN_NOSYNC 1u
#endif
#ifdef SK_ASAN
void __sanitizer_start_switch_fiber(void** fake_stack_save, const void* bottom, size_t size);
void __sanitizer_finish_switch_fiber(void* fake_stack_save, const void** bottom_old, size_t* size_old);
#endif

#define STACK_SIZE ((size_t)512 << 10)
enum { T_FREE, T_RUNNABLE, T_BLOCKED, T_SLEEPING, T_DONE };

typedef struct {
	ucontext_t ctx;
	unsigned char* stack;
	int state;
	const void* wait_obj;
	uint64_t wake_at;
	sk_task_fn fn;
	void* arg;
	int prio;
	void* tsan_fiber;
	void* asan_fake;
} task_t;

static task_t tasks[SK_MAXTASKS];
static int ntasks, cur = -1;
static ucontext_t main_ctx;
static void* main_tsan_fiber;
static void* main_asan_fake;
static const void* main_stack_bottom;
static size_t main_stack_size;
static sk_rng srng;
static sk_sched_cfg cfg;
static unsigned steps;
static uint64_t now;
static sk_dg sched_sig;
static int rr_task, rr_left, starve_victim;
static unsigned pct_points[8];
static int pct_low;
#define TRACE_MAX 65536
static unsigned char trace[TRACE_MAX];
static unsigned trace_n;
/* object identities are normalised to first-seen order so that addresses
   outside the arena never reach a digest */
static const void* objs[64];
static int nobjs;

static int obj_id(const void* o)
{
	int i;
	if (!o)
		return 0;
	for (i = 0; i < nobjs; ++i)
		if (objs[i] == o)
			return i + 1;
	if (nobjs < 64)
	{
		objs[nobjs++] = o;
		return nobjs;
	}
	return 65;
}

int sk_self(void) { return cur; }
unsigned sk_steps(void) { return steps; }
uint64_t sk_sched_sig(void) { return sched_sig; }
uint64_t sk_now(void) { return now; }
const unsigned char* sk_sched_trace(unsigned* n) { *n = trace_n; return trace; }

void sk_sched_init(uint64_t seed, const sk_sched_cfg* c)
{
	int i;
	sk_rng_seed(&srng, seed);
	cfg = *c;
	if (cfg.max_steps == 0)
		cfg.max_steps = 20000;
	ntasks = 0, cur = -1, steps = 0, now = 0, sched_sig = SK_DG_INIT;
	nobjs = 0, trace_n = 0;
	rr_task = 0, rr_left = 0, starve_victim = -1, pct_low = 0;
	for (i = 0; i < 8; ++i)
		pct_points[i] = 0;
	for (i = 0; i < SK_MAXTASKS; ++i)
		tasks[i].state = T_FREE;
}

static void switch_to_main_from(task_t* t, int final)
{
#ifdef SK_TSAN
	__tsan_switch_to_fiber(main_tsan_fiber, final ? 0 : TSAN_NOSYNC);
#endif
#ifdef SK_ASAN
	__sanitizer_start_switch_fiber(final ? 0 : &t->asan_fake,
		main_stack_bottom, main_stack_size);
#endif
	(void)final;
	swapcontext(&t->ctx, &main_ctx);
#ifdef SK_ASAN
	__sanitizer_finish_switch_fiber(t->asan_fake, 0, 0);
#endif
}

static void trampoline(void)
{
	task_t* t = &tasks[cur];
#ifdef SK_ASAN
	__sanitizer_finish_switch_fiber(0, &main_stack_bottom, &main_stack_size);
#endif
	t->fn(t->arg);
	t->state = T_DONE;
	switch_to_main_from(t, 1);
	abort(); /* never resumed */
}

int sk_spawn(sk_task_fn fn, void* arg)
{
	task_t* t;
	if (ntasks >= SK_MAXTASKS)
		abort();
	t = &tasks[ntasks];
	if (!t->stack)
	{
		t->stack = (unsigned char*)mmap(0, STACK_SIZE, PROT_READ | PROT_WRITE,
			MAP_PRIVATE | MAP_ANONYMOUS | MAP_STACK, -1, 0);
		if (t->stack == MAP_FAILED)
			abort();
	}
	getcontext(&t->ctx);
	t->ctx.uc_stack.ss_sp = t->stack;
	t->ctx.uc_stack.ss_size = STACK_SIZE;
	t->ctx.uc_link = 0;
	makecontext(&t->ctx, trampoline, 0);
	t->state = T_RUNNABLE;
	t->fn = fn, t->arg = arg;
	t->wait_obj = 0, t->wake_at = 0;
	t->prio = (int)sk_below(&srng, 1000) + 10;
	t->asan_fake = 0;
#ifdef SK_TSAN
	t->tsan_fiber = __tsan_create_fiber(0);
#endif
	return ntasks++;
}

static void record(int task, int kind, const void* obj)
{
	unsigned char rec[3];
	rec[0] = (unsigned char)task, rec[1] = (unsigned char)kind;
	rec[2] = (unsigned char)obj_id(obj);
	sk_dg_add(&sched_sig, rec, 3);
}

void sk_yield(int kind, const void* obj)
{
	task_t* t;
	if (cur < 0)
		return;
	t = &tasks[cur];
	record(cur, kind, obj);
	switch_to_main_from(t, 0);
}

void sk_block_on(const void* obj)
{
	task_t* t;
	if (cur < 0)
		abort();
	t = &tasks[cur];
	t->state = T_BLOCKED, t->wait_obj = obj;
	record(cur, 100, obj);
	switch_to_main_from(t, 0);
}

void sk_wake(const void* obj)
{
	int i;
	for (i = 0; i < ntasks; ++i)
		if (tasks[i].state == T_BLOCKED && tasks[i].wait_obj == obj)
			tasks[i].state = T_RUNNABLE, tasks[i].wait_obj = 0;
}

void sk_sleep_until(uint64_t t)
{
	task_t* k;
	if (cur < 0)
		abort();
	k = &tasks[cur];
	k->state = T_SLEEPING, k->wake_at = t;
	record(cur, 101, 0);
	switch_to_main_from(k, 0);
}

static int pick(void)
{
	int run[SK_MAXTASKS], n = 0, i, best;
	for (i = 0; i < ntasks; ++i)
		if (tasks[i].state == T_RUNNABLE)
			run[n++] = i;
	if (n == 0)
		return -1;
	switch (cfg.strategy)
	{
	case 1: /* PCT */
		for (i = 0; i < cfg.pct_depth && i < 8; ++i)
			if (pct_points[i] == steps && cur >= 0)
				tasks[cur].prio = --pct_low;
		best = run[0];
		for (i = 1; i < n; ++i)
			if (tasks[run[i]].prio > tasks[best].prio)
				best = run[i];
		return best;
	case 2: /* round robin with random quantum */
		if (rr_left > 0 && tasks[rr_task].state == T_RUNNABLE)
		{
			--rr_left;
			return rr_task;
		}
		for (i = 1; i <= ntasks; ++i)
		{
			int c = (rr_task + i) % ntasks;
			if (tasks[c].state == T_RUNNABLE)
			{
				rr_task = c;
				rr_left = (int)sk_below(&srng, 6);
				return c;
			}
		}
		return run[0];
	case 3: /* starve one task */
		if (starve_victim < 0)
			starve_victim = (int)sk_below(&srng, (uint32_t)ntasks);
		if (n > 1 && !sk_chance(&srng, 1, 24))
		{
			int k = (int)sk_below(&srng, (uint32_t)(n - 1)), j = 0;
			for (i = 0; i < n; ++i)
				if (run[i] != starve_victim && j++ == k)
					return run[i];
			/* victim not runnable: plain uniform */
			return run[sk_below(&srng, (uint32_t)n)];
		}
		return run[sk_below(&srng, (uint32_t)n)];
	default:
		return run[sk_below(&srng, (uint32_t)n)];
	}
}

int sk_sched_run(void)
{
	int i;
	if (cfg.strategy == 1)
		for (i = 0; i < cfg.pct_depth && i < 8; ++i)
			pct_points[i] = 1 + sk_below(&srng, 120);
#ifdef SK_TSAN
	main_tsan_fiber = __tsan_get_current_fiber();
#endif
	for (;;)
	{
		int t = pick();
		if (t < 0)
		{
			uint64_t best = UINT64_MAX;
			int alldone = 1;
			for (i = 0; i < ntasks; ++i)
			{
				if (tasks[i].state == T_SLEEPING && tasks[i].wake_at < best)
					best = tasks[i].wake_at;
				if (tasks[i].state != T_DONE)
					alldone = 0;
			}
			if (alldone)
				return 0;
			if (best == UINT64_MAX)
				return 1; /* deadlock: unfinished, none runnable, no event */
			if (best > now)
				now = best;
			for (i = 0; i < ntasks; ++i)
				if (tasks[i].state == T_SLEEPING && tasks[i].wake_at <= now)
					tasks[i].state = T_RUNNABLE;
			continue;
		}
		if (++steps > cfg.max_steps)
			return 2;
		if (trace_n < TRACE_MAX)
			trace[trace_n++] = (unsigned char)t;
		cur = t;
#ifdef SK_TSAN
		__tsan_switch_to_fiber(tasks[t].tsan_fiber, TSAN_NOSYNC);
#endif
#ifdef SK_ASAN
		__sanitizer_start_switch_fiber(&main_asan_fake, tasks[t].stack, STACK_SIZE);
#endif
		swapcontext(&main_ctx, &tasks[t].ctx);
#ifdef SK_ASAN
		__sanitizer_finish_switch_fiber(main_asan_fake, 0, 0);
#endif
		cur = -1;
	}
}

void sk_sched_cleanup(void)
{
#ifdef SK_TSAN
	int i;
	for (i = 0; i < ntasks; ++i)
		if (tasks[i].tsan_fiber)
		{
			/* an unfinished fiber (deadlock/step cap) is abandoned; make the
			   hand-over synchronising so the next run is ordered after it */
			__tsan_destroy_fiber(tasks[i].tsan_fiber);
			tasks[i].tsan_fiber = 0;
		}
#endif
	ntasks = 0, cur = -1;
}
