/* Deterministic-simulation kernel shared by all engines (see DESIGN.md §2). */
#ifndef SIMK_H
#define SIMK_H
#include <stddef.h>
#include <stdint.h>
#include <stdio.h>

/* ------------------------------------------------------------------ prng */
typedef struct { uint64_t s[4]; } sk_rng;
uint64_t sk_sm64(uint64_t* x);
uint64_t sk_mix(uint64_t a, uint64_t b);
void sk_rng_seed(sk_rng* r, uint64_t seed);
uint64_t sk_u64(sk_rng* r);
uint32_t sk_below(sk_rng* r, uint32_t n);          /* uniform in [0,n), n>0 */
uint32_t sk_range(sk_rng* r, uint32_t lo, uint32_t hi); /* [lo,hi] */
int sk_chance(sk_rng* r, uint32_t num, uint32_t den);
void sk_bytes(sk_rng* r, void* buf, size_t n);

/* ---------------------------------------------------------------- digest */
typedef uint64_t sk_dg;
#define SK_DG_INIT 0xcbf29ce484222325ull
void sk_dg_add(sk_dg* h, const void* p, size_t n);
void sk_dg_u64(sk_dg* h, uint64_t v);
void sk_dg_str(sk_dg* h, const char* s);

/* ------------------------------------------------------------- run result */
#define SK_MAXTEXT 16384
typedef struct {
	sk_dg digest;          /* digest of the recorded history */
	int violated;          /* 0 ok, 1 property violated */
	int harness_fault;     /* 1: the run could not be judged (my bug) */
	char cls[96];          /* violation class (stable across shrinking) */
	char detail[768];      /* human-readable explanation */
	unsigned nops;         /* number of plan elements (ops+faults) for ddmin */
	uint64_t sig;          /* coverage signature of the run (0 = none) */
	int nontrivial;        /* run counts as non-trivial by the engine's rule */
	int want_text;         /* in: render the plan */
	char text[SK_MAXTEXT]; /* out: plan rendering, one element per line */
	size_t textlen;
} sk_result;

void sk_violate(sk_result* r, const char* cls, const char* fmt, ...);
void sk_fault(sk_result* r, const char* fmt, ...);
void sk_text(sk_result* r, const char* fmt, ...);

/* keep-mask for minimisation: element i of the generated plan is executed
   iff mask==NULL or bit i is set */
typedef struct { unsigned n; unsigned char* bits; } sk_mask;
int sk_keep(const sk_mask* m, unsigned i);

/* ---------------------------------------------------------------- engine */
typedef struct {
	const char* name;
	const char* property;
	int tier;                /* 0 quick, 1 thorough */
	const char* variant;     /* engine-specific sub-mode (may be "") */
} sk_opts;

typedef struct sk_engine {
	const char* name;
	void (*init)(const sk_opts* o);
	void (*run)(uint64_t run_seed, const sk_mask* mask, sk_result* out);
	void (*summary)(FILE* f);   /* prints ,"key":value ... JSON members */
} sk_engine;

extern sk_engine sk_the_engine;      /* defined by each engine TU */
extern sk_opts sk_options;
int sk_main(int argc, char** argv);

/* named counters (fault kinds fired, probes) */
void sk_count(const char* name, uint64_t add);
uint64_t sk_counter(const char* name);
/* distinct signatures seen by this worker */
int sk_sig_add(uint64_t sig);        /* returns 1 if new */

/* ------------------------------------------------------------------ heap */
typedef void (*sk_release_cb)(void* ptr, size_t size, int kind);
  /* kind 0 free, 1 realloc-old, 2 live-at-end (reported by sk_heap_scan_live) */
void sk_heap_reset(uint64_t fill_seed);  /* new run: empty arena */
void sk_heap_reset_stale(void);          /* new run: fresh blocks keep the previous run's bytes */
void sk_mark_defined(void* p, size_t n); /* MSan builds: treat as initialised; no-op elsewhere */
uint64_t sk_heap_digest(void);           /* digest of the arena's used part */
void sk_heap_arm(void);                  /* allocations come from the arena */
void sk_heap_disarm(void);
int sk_heap_armed(void);
void sk_heap_fail_at(long k, int persistent); /* k-th armed alloc from now fails (1-based); 0 = none */
long sk_heap_allocs(void);               /* armed allocation calls since last reset/fail_at */
long sk_heap_live(void);                 /* live arena blocks */
size_t sk_heap_live_bytes(void);
long sk_heap_failed(void);               /* allocation failures injected since reset */
void sk_heap_on_release(sk_release_cb cb);
void sk_heap_scan_live(sk_release_cb cb);
int sk_heap_overrun(void);               /* canary damage detected (non-ASan) */
int sk_heap_exhausted(void);
void* sk_alloc(size_t n);                /* harness-side exact-size block from the arena (never fails, not counted) */
void sk_free(void* p);
int sk_heap_owns(const void* p);
uint64_t sk_heap_trace(void);            /* digest of (op,size) sequence since reset */
void sk_heap_set_yield(void (*fn)(void));
void sk_heap_use_arena(int on);
extern int (*sk_heap_filter)(size_t n, int op);
extern int sk_restart_requested;       /* set by an engine: finish this worker after the current run */          /* 0: layer over the real malloc (tsan) */

/* normalise memWipe's hidden counter to a fixed value using only memWipe */
void sk_wipe_normalise(void);

/* ---------------------------------------------------------------- fibers */
#define SK_MAXTASKS 20
typedef void (*sk_task_fn)(void* arg);
typedef struct {
	int strategy;      /* 0 uniform, 1 pct, 2 round-robin quantum, 3 starve-one */
	int pct_depth;
	unsigned max_steps;
} sk_sched_cfg;

void sk_sched_init(uint64_t seed, const sk_sched_cfg* cfg);
int sk_spawn(sk_task_fn fn, void* arg);       /* returns task id */
int sk_sched_run(void);  /* 0 all done; 1 deadlock; 2 step cap */
void sk_yield(int kind, const void* obj);     /* from inside a task */
void sk_block_on(const void* obj);            /* park until sk_wake(obj) */
void sk_wake(const void* obj);
int sk_self(void);                            /* current task id, -1 = main */
unsigned sk_steps(void);
uint64_t sk_sched_sig(void);                  /* digest of (task,kind,obj-id) sequence */
void sk_sched_cleanup(void);
/* simulated time (discrete event) */
uint64_t sk_now(void);
void sk_sleep_until(uint64_t t);              /* park current task until time t */
/* schedule trace for replay rendering */
const unsigned char* sk_sched_trace(unsigned* n);

#endif
