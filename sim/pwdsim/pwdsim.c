/* C20: PIN/CAN/PUK automaton on seeded histories with session loss.
   Monitors are transcribed from the property statement (DESIGN.md, C20). */
#include "simk.h"
#include <string.h>
#include "bee2/crypto/btok.h"

static const char* PIN_N[] = { "puk0","puk1","puk2","puk3","puk4","puk5","puk6",
	"puk7","puk8","puk9","pin0","pin1","pind","pins","pin2","pin3" };
static const char* AUTH_N[] = { "none","pin","can","puk" };
static const char* EV_N[] = { "pin_ok","pin_bad","pin_deactivate","pin_activate",
	"can_ok","can_bad","puk_ok","puk_bad","auth_close","SESSION_LOST" };
#define EV_LOST 9
#define BLOCKED(p) ((p) <= pin0)

static uint64_t triples_seen[576 / 64 + 1];
static unsigned ntriples;

static void init(const sk_opts* o) { (void)o; }

static void run(uint64_t seed, const sk_mask* mask, sk_result* out)
{
	sk_rng r;
	unsigned char ev[400];
	unsigned n, i, w[10], wsum = 0, start;
	btok_pwd_state* st;
	/* monitor state */
	int wrong, need_can, last_ok = auth_none;
	sk_rng_seed(&r, seed);
	sk_heap_reset(sk_u64(&r));
	/* swarm: per-run event weights */
	for (i = 0; i < 10; ++i)
	{
		w[i] = sk_chance(&r, 1, 5) ? 0 : 1 + sk_below(&r, 8);
		if (i == EV_LOST)
			w[i] = sk_chance(&r, 1, 3) ? 0 : 1 + sk_below(&r, 2);
		wsum += w[i];
	}
	if (wsum == 0)
		w[1] = 1, wsum = 1;
	start = sk_below(&r, 16);
	n = 1 + sk_below(&r, sk_options.tier ? 400 : 200);
	for (i = 0; i < n; ++i)
	{
		unsigned x = sk_below(&r, wsum), e = 0;
		while (x >= w[e])
			x -= w[e++];
		ev[i] = (unsigned char)e;
	}
	out->nops = n;
	st = (btok_pwd_state*)sk_alloc(sizeof(btok_pwd_state));
	memset(st, 0, sizeof(*st));
	st->pin = (btok_pin_state)start, st->auth = auth_none;
	sk_text(out, "start pin=%s auth=none", PIN_N[start]);
	wrong = start == pin3 ? 0 : start == pin2 ? 1 :
		(start == pins || start == pin1) ? 2 : start == pind ? 0 : 3;
	need_can = start == pins;
	sk_dg_u64(&out->digest, start);
	for (i = 0; i < n; ++i)
	{
		unsigned e = ev[i], ppin, pauth, qpin, qauth;
		bool_t acc;
		if (!sk_keep(mask, i))
			continue;
		ppin = st->pin, pauth = st->auth;
		if (e == EV_LOST)
		{
			/* crash model: volatile part lost, durable part kept */
			st->auth = auth_none;
			last_ok = auth_none;
			sk_count("fault.session_lost", 1);
			sk_text(out, "%u SESSION_LOST  (pin=%s)", i, PIN_N[ppin]);
			sk_dg_u64(&out->digest, 0x99);
			continue;
		}
		acc = btokPwdTransition(st, (btok_pwd_event)e);
		qpin = st->pin, qauth = st->auth;
		sk_text(out, "%u %s -> %s  pin=%s auth=%s", i, EV_N[e],
			acc ? "accepted" : "rejected", qpin < 16 ? PIN_N[qpin] : "?",
			qauth < 4 ? AUTH_N[qauth] : "?");
		sk_dg_u64(&out->digest, (uint64_t)e | (uint64_t)acc << 8 | (uint64_t)qpin << 16 | (uint64_t)qauth << 24);
		sk_count("steps", 1);
		{
			unsigned t = (ppin * 4 + pauth) * 9 + e;
			if (!(triples_seen[t >> 6] >> (t & 63) & 1))
				triples_seen[t >> 6] |= 1ull << (t & 63), ++ntriples;
			sk_sig_add(sk_mix(((uint64_t)t << 16) | (uint64_t)wrong << 8 |
				(uint64_t)need_can << 4 | (uint64_t)last_ok, 20));
		}
		if (qpin > pin3 || qauth > auth_puk)
		{
			sk_violate(out, "state_out_of_range", "step %u %s: pin=%u auth=%u", i, EV_N[e], qpin, qauth);
			break;
		}
		if (!acc)
		{
			sk_count("probe.rejected_event", 1);
			/* I6 */
			if (qpin != ppin || qauth != pauth)
			{
				sk_violate(out, "I6_rejected_event_changed_state",
					"step %u %s rejected but (%s,%s)->(%s,%s)", i, EV_N[e],
					PIN_N[ppin], AUTH_N[pauth], PIN_N[qpin], AUTH_N[qauth]);
				break;
			}
			continue;
		}
		/* ---- accepted event */
		if (e == pin_ok || e == can_ok || e == puk_ok)
			last_ok = e == pin_ok ? auth_pin : e == can_ok ? auth_can : auth_puk;
		/* I5 */
		if (qauth != auth_none && (int)qauth != last_ok)
		{
			sk_violate(out, "I5_stale_authentication",
				"step %u %s: auth=%s but most recent successful password is %s",
				i, EV_N[e], AUTH_N[qauth], AUTH_N[last_ok]);
			break;
		}
		/* I1/I2: PIN attempts */
		if (e == pin_ok || e == pin_bad)
		{
			if (BLOCKED(ppin) || ppin == pins || ppin == pind)
			{
				sk_violate(out, "I1_pin_attempt_accepted_while_unusable",
					"step %u %s accepted in pin=%s", i, EV_N[e], PIN_N[ppin]);
				break;
			}
			if (need_can)
			{
				sk_violate(out, "I2_pin_attempt_without_can",
					"step %u %s accepted after the suspending wrong PIN with no correct CAN in between", i, EV_N[e]);
				break;
			}
			if (e == pin_bad)
			{
				++wrong;
				if (wrong == 2)
					need_can = 1, sk_count("probe.suspended", 1);
				if (wrong > 3)
				{
					sk_violate(out, "I1_more_than_three_wrong_pins",
						"step %u: wrong PIN #%d accepted since the counter was restored", i, wrong);
					break;
				}
				if (wrong == 3)
				{
					sk_count("probe.third_wrong_pin", 1);
					if (!BLOCKED(qpin))
					{
						sk_violate(out, "I1_not_blocked_after_third_wrong_pin",
							"step %u: third wrong PIN leaves pin=%s", i, PIN_N[qpin]);
						break;
					}
				}
			}
			else
			{
				if (qpin != pin3)
				{
					sk_violate(out, "I1_pin_ok_did_not_restore", "step %u: pin_ok leaves pin=%s", i, PIN_N[qpin]);
					break;
				}
				wrong = 0, need_can = 0;
			}
		}
		if (e == can_ok)
			need_can = 0;
		/* I3: blocked region */
		if (BLOCKED(ppin))
		{
			if (!BLOCKED(qpin))
			{
				if (!(e == puk_ok || pauth == auth_puk))
				{
					sk_violate(out, "I3_unblocked_without_puk",
						"step %u %s: pin %s -> %s with auth=%s", i, EV_N[e], PIN_N[ppin], PIN_N[qpin], AUTH_N[pauth]);
					break;
				}
				if (qpin == pin3 && e != puk_ok)
				{
					sk_violate(out, "I3_unblocked_without_puk",
						"step %u %s: blocked pin %s became pin3 directly", i, EV_N[e], PIN_N[ppin]);
					break;
				}
				if (ppin == puk0 && e == puk_ok)
				{
					sk_violate(out, "I3_puk_ok_unblocked_terminated_pin",
						"step %u: puk_ok at puk0 gives pin=%s", i, PIN_N[qpin]);
					break;
				}
				if (qpin == pin3)
					wrong = 0, need_can = 0, sk_count("probe.unblocked_by_puk", 1);
			}
			else if (qpin != ppin)
			{
				if (!(e == puk_bad && qpin + 1 == ppin))
				{
					sk_violate(out, "I3_puk_counter_moved_wrongly",
						"step %u %s: pin %s -> %s", i, EV_N[e], PIN_N[ppin], PIN_N[qpin]);
					break;
				}
				if (qpin == puk0)
					sk_count("probe.terminated_puk0", 1);
			}
			else if (e == puk_bad && ppin != puk0)
			{
				sk_violate(out, "I3_wrong_puk_not_counted",
					"step %u: puk_bad accepted at %s without counting down", i, PIN_N[ppin]);
				break;
			}
			if (ppin == puk0 && (e == puk_ok || e == puk_bad) && qpin != puk0)
			{
				sk_violate(out, "I3_puk_ok_unblocked_terminated_pin", "step %u %s at puk0 -> %s", i, EV_N[e], PIN_N[qpin]);
				break;
			}
		}
		else if (BLOCKED(qpin) && !(e == pin_bad && wrong == 3))
		{
			/* entering the blocked region is only the third wrong PIN */
			sk_violate(out, "I1_blocked_without_third_wrong_pin",
				"step %u %s: pin %s -> %s", i, EV_N[e], PIN_N[ppin], PIN_N[qpin]);
			break;
		}
		/* I4 */
		if (ppin == pind && qpin != pind)
		{
			if (!(e == pin_activate && pauth == auth_puk))
			{
				sk_violate(out, "I4_left_deactivated_without_puk_activation",
					"step %u %s: pind -> %s with auth=%s", i, EV_N[e], PIN_N[qpin], AUTH_N[pauth]);
				break;
			}
			wrong = 0, need_can = 0;
			sk_count("probe.reactivated", 1);
		}
		if (qpin == pind && ppin != pind)
			wrong = 0, need_can = 0;
	}
	sk_free(st);
	if (sk_heap_overrun())
		sk_violate(out, "state_overrun", "write outside the %u-octet state", (unsigned)sizeof(btok_pwd_state));
	out->sig = 0;
}

static void summary(FILE* f)
{
	fprintf(f, ",\"triples_pin_auth_event\":%u,\"triples_total\":576", ntriples);
}

sk_engine sk_the_engine = { "pwdsim", init, run, summary };
